#!/usr/bin/env python3
"""rewrites the seeded-change table in DESIGN.md (between the two marker lines) from seeded/*/meta.json and seeded/RESULTS.json"""
import glob, json, os, re
V = os.path.dirname(os.path.abspath(__file__))
res = json.load(open(os.path.join(V, "seeded", "RESULTS.json"))) if os.path.exists(os.path.join(V, "seeded", "RESULTS.json")) else {}
rows = []
for d in sorted(glob.glob(os.path.join(V, "seeded", "C[0-9][0-9]-*"))):
    m = json.load(open(os.path.join(d, "meta.json")))
    sid = m["id"]
    r = res.get(sid, {})
    det = r.get("detected")
    first = r.get("first", "")
    inst = re.search(r"instance=(\S+)", first)
    lab = re.search(r"label=(.*?) model=", first)
    what = (m.get("summary") or "").replace("|", "/").replace("\n", " ")
    what = what[:130] + ("..." if len(what) > 130 else "")
    caught = "**yes**" if det else ("no" if det is False else "n/a")
    by = ("%s: %s" % (inst.group(1), lab.group(1)[:60])) if (det and inst and lab) else (r.get("note", "") or "")
    rows.append("| %s | %s | %s | %s |" % (sid, what, caught, by.replace("|", "/")))
n = len(rows); k = sum(1 for x in rows if "**yes**" in x)
block = ["<!-- SEEDED-TABLE-BEGIN -->", "", "%d of %d seeded changes are detected by the quick tier of the check of their own property." % (k, n), "",
         "| id | change (summary by its author) | caught | by instance: obligation |", "|---|---|---|---|"] + rows + ["", "<!-- SEEDED-TABLE-END -->"]
p = os.path.join(V, "DESIGN.md")
s = open(p).read()
a, b = s.index("<!-- SEEDED-TABLE-BEGIN -->"), s.index("<!-- SEEDED-TABLE-END -->") + len("<!-- SEEDED-TABLE-END -->")
open(p, "w").write(s[:a] + "\n".join(block) + s[b:])
print("table: %d/%d" % (k, n))
