"""C01 - reads that follow an annotated isoform are assigned to compatible isoforms only."""
import src.isoform_assignment as ia
from src.polya_finder import PolyAInfo
import src.long_read_profiles as lrp
import src.long_read_assigner as lra

from props import readfam
from props.readfam import RT, CONSISTENT, LOCI, build_locus, positive_read, assign, intron_chain_compatible, introns_of, abs_le
from vlib.runner import Instance
from vlib.spec import AND, OR, NOT, ITE, IMPLIES, IFF, SUM, call

PROPERTY = "C01"
EXPLANATION = ("Reads are SYMBOLIC AROUND AN ISOFORM: for every isoform T of a catalogue locus and every contiguous exon sub-chain, "
               "the inner splice sites are T's own shifted by independent symbolic jitters in [-delta, delta], the two ends are symbolic "
               "positions inside the terminal exons of the sub-chain; the real CombinedProfileConstructor and LongReadAssigner (with "
               "JunctionComparator and PolyAVerifier underneath) run on them with the parameter objects produced by the real "
               "isoquant.set_matching_options, and z3 decides the assignment obligations on every path. The negative family moves one "
               "splice site / removes or inserts an exon by a symbolic amount beyond every tolerance.")
STUBS = ["src.common / long_read_profiles / long_read_assigner / junction_comparator / polya_verification: float, min, max -> term-building shims"]
ASSUMPTIONS = ["annotations are catalogue loci (single isoform; exon skipping; alternative site far / within delta; ISM-nested; mono-exonic "
               "inside an intron; antisense overlap; alternative ends; retained intron; micro-exon; both strands)",
               "read ends lie inside the terminal exons of the followed sub-chain at least 25 bp from the inner splice site",
               "floats are exact rationals", "no polyA information unless the instance says so"]
OUTSIDE = ["annotations not in the catalogue", "indels (block-level equivalence is C16)", "MAPQ filtering", "reads with ends outside the isoform"]


def setup_symbolic():
    import src.gene_info as gene_info_mod
    from vlib import shims
    readfam.setup_symbolic()
    # parametric loci: GeneInfo.from_models on symbolic exons (exon/intron sets as association lists)
    gene_info_mod.set = shims.sym_set
    shims.install([gene_info_mod], ["min", "max"])


def reported(ra):
    return [m.assigned_transcript for m in ra.isoform_matches if m.assigned_transcript]


def h_positive(locus, tid, i, j, preset, polya=False, parametric=None):
    def fn(g):
        params = readfam.matching_params(preset)
        gi = build_locus(locus, params.delta, readfam.parametric_models(g, parametric) if parametric else None)
        exons = gi.all_isoforms_exons[tid]
        d = params.delta
        read = positive_read(g, exons, i, j, d)
        info = None
        strand = gi.isoform_strands[tid]
        if polya:
            # a polyA tail AT T's 3' end: the read reaches T's annotated end (within 10 bp) and the tail follows it
            if strand == "+" and j == len(exons) - 1:
                g.add(read[-1][1] >= exons[-1][1] - 10)
                info = PolyAInfo(read[-1][1] + g.int("polya_offset", 0, 10), -1, -1, -1)
            elif strand == "-" and i == 0:
                g.add(read[0][0] <= exons[0][0] + 10)
                info = PolyAInfo(-1, read[0][0] - g.int("polyt_offset", 0, 10), -1, -1)
        prof, ra = assign(g, gi, params, read, info)
        t = ra.assignment_type
        det = {"locus": locus, "isoform": tid, "subchain": [i, j], "type": getattr(t, "name", str(t)), "reported": reported(ra)}
        g.check(t in CONSISTENT, "a read following an isoform within tolerances gets a consistent assignment type", detail=det)
        rep = reported(ra)
        tol = max(d, params.minor_exon_extension)
        for u in rep:
            g.check(intron_chain_compatible(read, gi.all_isoforms_exons[u], d, tol),
                    "every reported isoform is structurally compatible with the read", detail=det)
        full = (i == 0 and j == len(exons) - 1)
        if full and len(exons) > 1:
            # full-length: both ends within 10 bp of T's own ends
            is_fl = AND(read[0][0] <= exons[0][0] + 10, read[-1][1] >= exons[-1][1] - 10)
            def enddist(u):
                ue = gi.all_isoforms_exons[u]
                return abs(read[0][0] - ue[0][0]) + abs(read[-1][1] - ue[-1][1])
            def sitedist(u):
                ui, ri = introns_of(gi.all_isoforms_exons[u]), introns_of(read)
                if len(ui) != len(ri):
                    return 10 ** 6
                acc = 0
                for a_, b_ in zip(ui, ri):
                    acc = acc + abs(a_[0] - b_[0]) + abs(a_[1] - b_[1])
                return acc
            # another isoform may take T's place only if the read fits it STRICTLY better: it is compatible with the read and
            # (splice-site distance, end distance) is lexicographically smaller than T's; on a tie both must be reported
            def better(u):
                return OR(sitedist(u) < sitedist(tid), AND(sitedist(u) == sitedist(tid), enddist(u) < enddist(tid)))
            closer_twin = OR([AND(intron_chain_compatible(read, gi.all_isoforms_exons[u], d, tol), better(u)) for u in rep if u != tid] or [False])
            g.check(IMPLIES(is_fl, OR(tid in rep, closer_twin)), "the followed isoform is reported for a full-length read "
                    "(only an isoform that fits the read strictly better - splice sites, then ends - may be reported in its place)", detail=det)
        others = [u for u in gi.all_isoforms_exons if u != tid]
        only = AND([NOT(intron_chain_compatible(read, gi.all_isoforms_exons[u], d, tol)) for u in others]) if others else True
        g.check(IMPLIES(only, rep == [tid] and t in (RT.unique, RT.unique_minor_difference)),
                "unique to T when T is the only compatible isoform", detail=det)
    return fn


def h_negative(locus, tid, kind, preset):
    """T with one structural edit far beyond every tolerance"""
    def fn(g):
        params = readfam.matching_params(preset)
        gi = build_locus(locus, params.delta)
        exons = list(gi.all_isoforms_exons[tid])
        big = 400          # beyond delta, max_intron_shift, major_exon_extension
        s = g.int("edit_size", big, 900 if kind.startswith("alt_") else 600)
        if kind == "shifted_donor":
            exons[0] = (exons[0][0], exons[0][1] - s + 550 if False else exons[0][1])
            read = [(exons[0][0], exons[0][1])] + [(exons[1][0], exons[1][1])] + exons[2:]
            # move the first donor site deep into the intron
            read[0] = (exons[0][0], exons[0][1] + s)
        elif kind == "novel_exon":
            # a novel 80-bp exon deep inside the first intron
            a = exons[0][1] + s
            read = [exons[0], (a, a + 80)] + exons[1:]
        elif kind == "retained_intron":
            read = [(exons[0][0], exons[1][1])] + exons[2:]
        elif kind == "flanking_exon_right":
            # the last exon (ending at the annotated end, within delta) spliced to a novel exon far downstream of the isoform
            a = exons[-1][1] + s
            j_ = g.int("end_jitter", -params.delta, params.delta)
            read = [(exons[-1][0] + 20, exons[-1][1] + j_), (a, a + 150)]
        elif kind == "flanking_exon_left":
            a = exons[0][0] - s
            j_ = g.int("start_jitter", -params.delta, params.delta)
            read = [(a - 150, a), (exons[0][0] + j_, exons[0][1] - 20)]
        elif kind in ("alt_first_exon", "alt_last_exon"):
            # T with its first / last exon replaced by a DIFFERENT exon of (almost) the same length, >= 400 bp further out:
            # the terminal splice site is hundreds of bp away from T's
            dl = g.int("exon_length_difference", -20, 20)
            if kind == "alt_first_exon":
                ln = exons[0][1] - exons[0][0] + dl
                b_ = exons[0][1] - s
                read = [(b_ - ln, b_)] + exons[1:]
            else:
                ln = exons[-1][1] - exons[-1][0] + dl
                a_ = exons[-1][0] + s
                read = exons[:-1] + [(a_, a_ + ln)]
            g.add(ln >= 30)
            # ... and from the terminal splice site of every other isoform as well (beyond max_intron_shift of every preset)
            for ue in gi.all_isoforms_exons.values():
                if len(ue) > 1:
                    g.add(abs(read[0][1] - ue[0][1]) >= 150 if kind == "alt_first_exon" else abs(read[-1][0] - ue[-1][0]) >= 150)
        elif kind == "distant_polya":
            # a truncated read of T whose polyA / polyT tail lies inside an exon, >= 400 bp away from the 3' end of every isoform
            strand = gi.isoform_strands[tid]
            far_from_ends = lambda p, k: AND([abs(p - ue[k][k]) >= big for ue in gi.all_isoforms_exons.values()])
            if strand == "+":
                jx = g.choice("last_read_exon", len(exons) - 1) + 1
                p = g.int("polya_position", exons[jx][0] + 30, exons[jx][1])
                g.add(far_from_ends(p, -1))
                g.add(OR(jx == len(exons) - 1, exons[jx][1] - p >= big))      # the rest of a non-terminal exon is missing too
                read = positive_read(g, exons, 0, jx, 0)[:-1] + [(exons[jx][0], p)]
                info = PolyAInfo(p + 1, -1, -1, -1)
            else:
                jx = g.choice("first_read_exon", len(exons) - 1)
                p = g.int("polyt_position", exons[jx][0], exons[jx][1] - 30)
                g.add(far_from_ends(p, 0))
                g.add(OR(jx == 0, p - exons[jx][0] >= big))
                read = [(p, exons[jx][1])] + positive_read(g, exons, jx, len(exons) - 1, 0)[1:]
                info = PolyAInfo(-1, p - 1, -1, -1)
        else:
            raise ValueError(kind)
        if kind in ("shifted_donor", "novel_exon", "retained_intron"):
            # the outer ends may overhang T's by a minor amount (a minor event next to the major contradiction)
            ov_l, ov_r = g.int("left_overhang", 0, 40), g.int("right_overhang", 0, 40)
            read = [(read[0][0] - ov_l, read[0][1])] + read[1:]
            read = read[:-1] + [(read[-1][0], read[-1][1] + ov_r)]
        if kind != "distant_polya":
            info = None
            # the edit must stay inside the intron it modifies and create a structure that no isoform has
            g.add(read[0][1] + 30 < read[1][0])
            g.add(AND([read[k][1] + 30 < read[k + 1][0] for k in range(len(read) - 1)]))
            g.add(read[0][0] >= 1)
            for u in gi.all_isoforms_exons:
                g.assume(NOT(intron_chain_compatible(read, gi.all_isoforms_exons[u], params.delta, max(params.delta, params.minor_exon_extension))))
        prof, ra = assign(g, gi, params, read, info)
        t = ra.assignment_type
        # known finding: a different terminal exon whose LENGTH is within 2*delta of the annotated terminal exon's is taken for a
        # misaligned terminal exon (minor), however far away it is
        ex = None
        if kind in ("alt_first_exon", "alt_last_exon"):
            k_ = 0 if kind == "alt_first_exon" else -1
            rl = read[k_][1] - read[k_][0]
            ex = g.excl({"C01-alternative-terminal-exon-of-similar-length":
                         OR([abs(rl - (ue[k_][1] - ue[k_][0])) < 2 * params.delta for ue in gi.all_isoforms_exons.values()])})
        g.check(t not in CONSISTENT, "a read far from every annotated isoform never gets a consistent assignment type", exclude=ex,
                detail={"locus": locus, "isoform": tid, "edit": kind, "type": getattr(t, "name", str(t)), "reported": reported(ra)})
    return fn


def h_history(locus, tid, other, preset):
    """two reads through ONE LongReadAssigner / profile constructor (as process_genic does for all reads of a locus): the second
    read's assignment equals the one a fresh assigner gives"""
    def fn(g):
        params = readfam.matching_params(preset)
        gi = build_locus(locus, params.delta)
        d = params.delta
        ex = gi.all_isoforms_exons[tid]
        second = [tuple(x) for x in positive_read(g, ex, 0, len(ex) - 1, d)]
        g.add(AND(second[0][0] == ex[0][0], second[-1][1] == ex[-1][1]))      # exact ends: the junction jitter is what varies here
        if other == tid:
            first = list(second)                  # identical junctions
        else:
            oe = gi.all_isoforms_exons[other]
            first = [tuple(x) for x in oe]
        # the first read may extend far beyond the locus (unannotated sequence)
        ext = [(0, 0), (300, 0), (0, 300), (0, 6000)][g.choice("first_read_extension", 4)]
        first = [(max(1, first[0][0] - ext[0]), first[0][1])] + first[1:]
        first = first[:-1] + [(first[-1][0], first[-1][1] + ext[1])]
        pc = lrp.CombinedProfileConstructor(gi, params)
        assigner = lra.LongReadAssigner(gi, params)
        none = PolyAInfo(-1, -1, -1, -1)
        call(g, assigner.assign_to_isoform, "first", call(g, pc.construct_profiles, first, none, []))
        ra = call(g, assigner.assign_to_isoform, "second", call(g, pc.construct_profiles, second, none, []))
        _, rb = assign(g, gi, params, second)
        det = {"after_another_read": [getattr(ra.assignment_type, "name", ""), reported(ra)], "alone": [getattr(rb.assignment_type, "name", ""), reported(rb)]}
        g.check(ra.assignment_type == rb.assignment_type and reported(ra) == reported(rb),
                "the assignment of a read does not depend on the reads assigned before it", detail=det)
    return fn


def subchains(n):
    return [(i, j) for i in range(n) for j in range(i, n)]


def instances(tier, seed):
    q = tier == "quick"
    F = ["src.long_read_profiles:CombinedProfileConstructor.construct_profiles", "src.long_read_assigner:LongReadAssigner.assign_to_isoform",
         "src.long_read_assigner:LongReadAssigner.match_consistent", "src.long_read_assigner:LongReadAssigner.match_inconsistent",
         "src.long_read_assigner:LongReadAssigner.select_similar_isoforms", "src.long_read_assigner:LongReadAssigner.classify_assignment",
         "src.long_read_assigner:LongReadAssigner.categorize_exon_elongation_subtype", "src.junction_comparator:JunctionComparator.compare_junctions",
         "src.polya_verification:PolyAVerifier.verify_read_ends", "isoquant:set_matching_options"]
    out = []
    presets = ["default"] if q else ["exact", "precise", "default", "loose"]
    loci = sorted(LOCI)
    for li, locus in enumerate(loci):
        models = LOCI[locus]
        for preset in presets:
            for (tid, gid, strand, exons) in models:
                chains = subchains(len(exons))
                if q:
                    # full length + one rotating partial chain per isoform
                    full = (0, len(exons) - 1)
                    rest = [c for c in chains if c != full]
                    chains = [full] + ([rest[(seed + li) % len(rest)]] if rest else [])
                for (i, j) in chains:
                    out.append(Instance("follow[%s,%s,exons %d-%d,%s]" % (locus, tid, i, j, preset), h_positive(locus, tid, i, j, preset), F,
                                        "locus %s, read following %s exons %d..%d, jitters in [-delta,delta], ends symbolic, preset %s" % (locus, tid, i, j, preset),
                                        weight=10 * (j - i + 1), budget_s=1200))
                if (not q or locus in ("near_ends", "alt_ends", "skip")) and len(exons) > 1:
                    out.append(Instance("follow_polya[%s,%s,%s]" % (locus, tid, preset), h_positive(locus, tid, 0, len(exons) - 1, preset, True), F,
                                        "full-length read with a polyA/polyT tail at the 3' end", weight=20, budget_s=1200))
            if len(models[0][3]) >= 3:
                for kind in ("shifted_donor", "novel_exon", "retained_intron", "flanking_exon_right", "flanking_exon_left", "distant_polya",
                             "alt_first_exon", "alt_last_exon"):
                    if kind == "distant_polya" and locus not in ("short_last", "short_first"):
                        continue            # needs an exon long enough to hold a tail 400 bp away from every annotated end
                    if kind == "retained_intron":
                        ex0 = models[0][3]
                        rd = [(ex0[0][0], ex0[1][1])] + ex0[2:]
                        if any(intron_chain_compatible(rd, m[3], 12, 50) for m in models):
                            continue        # on this locus the edited structure is another isoform's (truncated) structure
                    out.append(Instance("far[%s,%s,%s,%s]" % (locus, models[0][0], kind, preset), h_negative(locus, models[0][0], kind, preset), F,
                                        "locus %s, %s with one edit of symbolic size >= 400 bp" % (locus, models[0][0]), weight=15, budget_s=900))
    for locus, tid, other in ([("alt_site_other_end", "T1", "T1"), ("skip", "T1", "T2"), ("alt_site_tie", "T12", "T12")] if q else
                              [(l, LOCI[l][0][0], o) for l in loci if len(LOCI[l]) > 1 for o in (LOCI[l][0][0], LOCI[l][-1][0])]):
        out.append(Instance("history[%s,%s after %s]" % (locus, tid, other), h_history(locus, tid, other, "default"), F,
                            "locus %s: a read of %s (possibly starting far upstream) and then a read following %s through one assigner" % (locus, other, tid),
                            weight=60, budget_s=1200))
    # parametric loci: the second isoform is placed by the solver (thorough: all kinds and sub-chains; quick: one kind, full chain)
    kinds = ["alt_sites", "alt_ends", "inner_exon_anywhere"]
    for ki, kind in enumerate(kinds):
        if q:
            continue            # the second isoform placed by the solver costs 10^4-10^5 paths per instance: thorough tier only
        for tid in ("T1", "T2"):
            for (i, j) in [(0, 2), (0, 1), (1, 2)]:
                out.append(Instance("follow_parametric[%s,%s,exons %d-%d]" % (kind, tid, i, j), h_positive("parametric", tid, i, j, "default", False, kind), F,
                                    "two isoforms, the second one placed by the solver (%s); read following %s exons %d..%d" % (kind, tid, i, j),
                                    weight=400, budget_s=2400))
    return out
