"""Shared driver for GraphBasedModelConstructor.construct_fl_isoforms: the real method runs on a
constructor whose state is built directly (one or two full-length paths in the path storage); used by
C18 (strand), C04 (novel model labelling) and C10 (independence of prior class-level state)."""
from collections import defaultdict

import src.graph_based_model_construction as gbmc
import src.intron_graph as intron_graph
import src.isoform_assignment as ia
from src.gene_info import StrandDetector
from src.id_policy import SimpleIDDistributor


class Obj:
    def __init__(self, **kw):
        self.__dict__.update(kw)


class StubAssigner:
    """assign_to_isoform: `matching` names a reference isoform that the path reproduces (or None)"""
    def __init__(self, matching=None):
        self.matching = matching

    def assign_to_isoform(self, read_id, profile):
        if self.matching:
            m = ia.IsoformMatch(ia.MatchClassification.full_splice_match, "G", self.matching,
                                ia.MatchEvent(ia.MatchEventSubtype.fsm), "+")
            return ia.ReadAssignment(read_id, ia.ReadAssignmentType.unique, m)
        return ia.ReadAssignment(read_id, ia.ReadAssignmentType.inconsistent,
                                 ia.IsoformMatch(ia.MatchClassification.novel_not_in_catalog, "G", "T0",
                                                 ia.MatchEvent(ia.MatchEventSubtype.alt_left_site_novel), "+"))


_MISSING = object()


def get_reported():
    """the class-level 'known isoforms already reported' set, or _MISSING when the class keeps no such state"""
    return getattr(gbmc.GraphBasedModelConstructor, "detected_known_isoforms", _MISSING)


def set_reported(value):
    """set (or restore) that class-level state; a class without it is left alone"""
    if value is _MISSING or get_reported() is _MISSING:
        return
    gbmc.GraphBasedModelConstructor.detected_known_isoforms = value


def make_sequence(introns, pairs, length=None):
    """reference string (1-based coordinates, region start 1) with the given dinucleotides at the intron borders"""
    length = length or (max(i[1] for i in introns) + 10)
    seq = ["A"] * length          # position p is at index p - 1
    for (a, b), (l, r) in zip(introns, pairs):
        seq[a - 1:a + 1] = list(l)
        seq[b - 2:b] = list(r)
    return "".join(seq)


def make_constructor(chr_record, params, gene_info=None, known_introns=(), reference_gene=None, matching=None,
                     known_isoforms_in_graph=None):
    gi_ = gene_info or Obj(chr_id="chr1", gene_strands={"G": "+"}, empty=lambda: reference_gene is None,
                           all_isoforms_introns={}, isoform_strands={}, gene_id_map={})
    # the REAL constructor runs (so that every piece of per-instance state it sets up exists); only the two heavy collaborators it
    # creates are replaced by the stubs while it runs
    saved = (gbmc.LongReadAssigner, gbmc.CombinedProfileConstructor)
    gbmc.LongReadAssigner = lambda gi, prm, *a, **k: StubAssigner(matching)
    gbmc.CombinedProfileConstructor = lambda gi, prm, *a, **k: Obj(construct_profiles=lambda exons, polya, cage: None)
    try:
        c = gbmc.GraphBasedModelConstructor(gi_, chr_record, params, None, SimpleIDDistributor())
    finally:
        gbmc.LongReadAssigner, gbmc.CombinedProfileConstructor = saved
    c.strand_detector = StrandDetector(chr_record)
    c.intron_genes = defaultdict(set)
    if reference_gene:
        for i in known_introns:
            c.intron_genes[i].add(reference_gene)
    c.known_isoforms_in_graph = known_isoforms_in_graph or {}
    c.known_introns = set(known_introns)
    c.known_isoforms_in_graph_ids = {}
    c.assigner = StubAssigner(matching)
    c.profile_constructor = Obj(construct_profiles=lambda exons, polya, cage: None)
    c.transcript_model_storage = []
    c.transcript_read_ids = defaultdict(list)
    c.transcript_counter = None
    c.internal_counter = defaultdict(int)
    c.read_assignment_counts = defaultdict(int)
    c.transcript2transcript = []
    c.path_storage = Obj(fl_paths=set(), paths={}, paths_to_reads=defaultdict(list))
    return c


def add_path(c, introns, start, end, count, polyt=False, polya=False, reads=None):
    first = (intron_graph.VERTEX_polyt if polyt else intron_graph.VERTEX_read_start, start)
    last = (intron_graph.VERTEX_polya if polya else intron_graph.VERTEX_read_end, end)
    path = (first,) + tuple(introns) + (last,)
    c.path_storage.fl_paths.add(path)
    c.path_storage.paths[path] = count
    c.path_storage.paths_to_reads[path] = reads if reads is not None else [Obj(read_id="r_%d" % len(c.path_storage.paths), read_group="NA")]
    return path


def default_params(strategy_name="auto", **kw):
    import isoquant
    lvl = isoquant.StrandnessReportingLevel if hasattr(isoquant, "StrandnessReportingLevel") else None
    from src.graph_based_model_construction import StrandnessReportingLevel
    p = Obj(min_known_count=1, min_novel_count=2, require_monointronic_polya=True, use_technical_replicas=False,
            report_canonical_strategy=StrandnessReportingLevel[strategy_name])
    p.__dict__.update(kw)
    return p
