"""C13 - exon/intron inclusion and exclusion counts equal a recount from the alignments."""
import os
import shutil
import tempfile
from functools import partial

import src.common as common
import src.gene_info as gene_info_mod
import src.long_read_profiles as lrp
import src.long_read_counter as lrc
from src.gene_info import GeneInfo, TranscriptModel, TranscriptModelType
from src.polya_finder import PolyAInfo

from vlib import shims
from vlib.runner import Instance
from vlib.spec import AND, OR, NOT, ITE, IMPLIES, IFF, SUM, call, interval_list, sym_min, sym_max

PROPERTY = "C13"
EXPLANATION = ("A read of k exons with FREE symbolic coordinates is profiled by the real CombinedProfileConstructor "
               "(count_exons wiring) against real GeneInfo objects built from catalogue loci (overlapping, shared, contained, "
               "near-identical and multi-gene features), fed to the real Exon/IntronCounter, and z3 compares every counter "
               "with an independent recount from the read's coordinates; the feature table is compared with a recomputation "
               "from the annotation.")
STUBS = ["src.common / src.long_read_profiles min/max -> term-building shims", "read assignment object -> fake carrying the two profiles, gene_info and group"]
ASSUMPTIONS = [
    "annotation loci come from a catalogue (concrete coordinates); the read's coordinates are free",
    "read exons and read introns are longer than 2*delta (as are the catalogue features)",
    "when several annotated features lie within delta of one read feature only the closest one(s) are credited (the code's "
    "documented rule); for such features only the unambiguous part is asserted",
    "exclude: MUST for a non-included feature well inside the read (exon inside (first exon end + delta, last exon start - delta); "
    "intron contained in the read span), MAY only for features overlapped by the read span - both readings of 'spans' are accepted",
]
OUTSIDE = ["which reads are processed (filters: C05)", "annotations outside the catalogue", "reads with more than k exons"]

_tmp = {"dir": None}


def setup_symbolic():
    shims.install([common, lrp], ["min", "max"])
    from props import genic
    genic.setup_symbolic()


def tmp_prefix(name):
    if _tmp["dir"] is None or not os.path.isdir(_tmp["dir"]):
        _tmp["dir"] = tempfile.mkdtemp(prefix="verif_c13_")
        import atexit
        atexit.register(shutil.rmtree, _tmp["dir"], True)
    d = os.path.join(_tmp["dir"], name)
    os.makedirs(d, exist_ok=True)
    return os.path.join(d, "smp")


class Obj:
    def __init__(self, **kw):
        self.__dict__.update(kw)


LOCI = {
    "skip+alt": [("T1", "G1", "+", [(100, 200), (300, 400), (500, 600)]),
                 ("T2", "G1", "+", [(100, 200), (500, 600)]),
                 ("T3", "G1", "+", [(150, 200), (300, 430), (500, 650)])],
    "contained+similar": [("T1", "G1", "+", [(100, 200), (300, 400), (500, 600)]),
                          ("T5", "G1", "+", [(320, 380), (500, 600)]),
                          ("T6", "G1", "+", [(100, 200), (303, 400), (500, 600)])],
    "shared_chain": [("T1", "G1", "+", [(100, 200), (300, 400), (500, 600)]),
                     ("T8", "G2", "-", [(150, 200), (300, 400), (500, 650)])],
    "antisense": [("T1", "G1", "+", [(100, 200), (300, 400), (500, 600)]),
                  ("T4", "G2", "-", [(370, 460), (700, 800)]),
                  ("T7", "G2", "-", [(100, 200), (700, 800)])],
}


def build_locus(name, delta):
    models = [TranscriptModel("chr1", s, t, gid, ex, TranscriptModelType.known) for t, gid, s, ex in LOCI[name]]
    gi = GeneInfo.from_models(models, delta)
    gi.gene_strands = {gid: s for _, gid, s, _ in LOCI[name]}
    gi.exon_property_map = gi.set_feature_properties(gi.all_isoforms_exons, gi.exon_profiles)
    gi.intron_property_map = gi.set_feature_properties(gi.all_isoforms_introns, gi.intron_profiles)
    return gi


MIN_ABSENCE_OVERLAP = 20


def params_for(delta):
    return Obj(delta=delta, minimal_intron_absence_overlap=MIN_ABSENCE_OVERLAP, minimal_exon_overlap=5, count_exons=True)


def matched(r, f, d):
    return AND(r[0] - f[0] <= d, f[0] - r[0] <= d, r[1] - f[1] <= d, f[1] - r[1] <= d)


def mdelta(r, f):
    return abs(r[0] - f[0]) + abs(r[1] - f[1])


def ovl(a, b):
    return AND(a[0] <= b[1], b[0] <= a[1])


def h_feature_table(locus, delta):
    def fn(g):
        gi = build_locus(locus, delta)
        for kind, feats, pmap, per_iso in (("exon", gi.exon_profiles.features, gi.exon_property_map, gi.all_isoforms_exons),
                                           ("intron", gi.intron_profiles.features, gi.intron_property_map, gi.all_isoforms_introns)):
            g.check(len(pmap) == len(feats), "one table row per annotated %s" % kind)
            for f, row in zip(feats, pmap):
                owners = [t for t, fl in per_iso.items() if f in fl]
                genes = sorted({gi.gene_id_map[t] for t in owners})
                strands = "".join(sorted({gi.isoform_strands[t] for t in owners}))
                g.check(row.chr_id == "chr1" and row.start == f[0] and row.end == f[1], "row coordinates = annotated feature")
                g.check(sorted(row.gene_ids) == genes, "row gene list = genes owning the feature", detail={"feature": list(f)})
                g.check(row.strand == strands, "row strand = strands of the owning isoforms")
            g.check(len({row.id for row in pmap}) == len(pmap), "feature ids are distinct")
    return fn


def h_recount(locus, delta, k, grouped, anchored=False, tails=False):
    def fn(g):
        g.batch = True
        gi = build_locus(locus, delta)
        d = delta
        blocks = interval_list(g, "read_exon", k, lo=1, gap=2)
        if anchored:
            # first read exon follows the first annotated exon up to a jitter just beyond delta; the rest is free
            a = gi.exon_profiles.features[0]
            g.add(AND(blocks[0][0] >= a[0] - d - 1, blocks[0][0] <= a[0] + d + 1, blocks[0][1] >= a[1] - d - 1, blocks[0][1] <= a[1] + d + 1))
        for b in blocks:
            g.add(b[1] - b[0] >= 2 * d)
        for i in range(k - 1):
            g.add(blocks[i + 1][0] - blocks[i][1] - 1 > 2 * d)
        pc = lrp.CombinedProfileConstructor(gi, params_for(d))
        info = PolyAInfo(-1, -1, -1, -1)
        if tails:
            # a polyA tail right after the read's last base and / or a polyT head right before its first one
            tail = g.choice("tails", 3 if tails == "light" else 4)
            info = PolyAInfo(blocks[-1][1] + g.int("polya_offset", 1, 10) if tail & 1 else -1,
                             blocks[0][0] - g.int("polyt_offset", 1, 10) if tail & 2 else -1, -1, -1)
        prof = call(g, pc.construct_profiles, blocks, info, [])
        groups = ["gA", "gB"]
        grp = groups[g.choice("read_group", 2)] if grouped else "NA"
        ra = Obj(exon_gene_profile=prof.read_exon_profile.gene_profile, intron_gene_profile=prof.read_intron_profile.gene_profile,
                 gene_info=gi, read_group=grp)
        ec = lrc.ExonCounter(tmp_prefix("e"), ignore_read_groups=not grouped)
        ic = lrc.IntronCounter(tmp_prefix("i"), ignore_read_groups=not grouped)
        call(g, ec.add_read_info, ra)
        call(g, ic.add_read_info, ra)
        introns = [(blocks[i][1] + 1, blocks[i + 1][0] - 1) for i in range(k - 1)]
        span = (blocks[0][0], blocks[-1][1])
        inner = (blocks[0][1] + d, blocks[-1][0] - d)
        for kind, counter, known, pmap, rfeats in (("exon", ec, gi.exon_profiles.features, gi.exon_property_map, blocks),
                                                   ("intron", ic, gi.intron_profiles.features, gi.intron_property_map, introns)):
            # known finding (same root cause as C19): the sweep drops a known feature once an earlier read feature overlaps it
            skipped = OR([AND(ovl(rfeats[r0], f), NOT(matched(rfeats[r0], f, d)), matched(rfeats[r1], f, d))
                          for f in known for r1 in range(len(rfeats)) for r0 in range(r1)] or [False])
            ex = g.excl({"C13-profile-sweep-skips-overlapped-feature": skipped})
            gid = counter.group_numeric_ids.get(grp, None) if grouped else 0
            M = [[matched(r, f, d) for f in known] for r in rfeats]
            D = [[mdelta(r, f) for f in known] for r in rfeats]
            nk = len(known)
            for fi, (f, row) in enumerate(zip(known, pmap)):
                inc = counter.inclusion_feature_counter[row.id].get(gid) if gid is not None else 0
                exc = counter.exclusion_feature_counter[row.id].get(gid) if gid is not None else 0
                cands = [M[i][fi] for i in range(len(rfeats))]
                any_match = OR(cands) if cands else False
                sole = AND([IMPLIES(cands[i], NOT(OR([M[i][j] for j in range(nk) if j != fi] or [False])))
                            for i in range(len(rfeats))]) if rfeats else True
                closest = OR([AND(cands[i], AND([IMPLIES(M[i][j], D[i][fi] <= D[i][j]) for j in range(nk)]))
                              for i in range(len(rfeats))]) if rfeats else False
                det = {"feature": list(f), "kind": kind}
                g.check(OR(inc == 0, inc == 1), "one read changes an include count by at most 1", detail=det)
                g.check(IMPLIES(inc == 1, any_match), "include only if the read contains the feature within delta", detail=det)
                g.check(IMPLIES(AND(any_match, sole), inc == 1), "include if the read contains the feature (sole candidate)", exclude=ex, detail=det)
                g.check(IMPLIES(closest, inc == 1), "a closest within-delta candidate is included", exclude=ex, detail=det)
                g.check(NOT(AND(inc == 1, exc == 1)), "no feature is both included and excluded by one read", detail=det)
                if kind == "exon":
                    must = AND(NOT(any_match), inner[0] <= f[0], f[1] <= inner[1]) if k > 1 else False
                    # "an exon lying between the read's first and last exon"
                    # closed bounds: with delta = 0 an exon that only touches the border base of a terminal read exon still counts as lying between
                    may = OR(AND(blocks[0][1] <= f[0], f[1] <= blocks[-1][0]), any_match)   # non-closest candidates are marked absent
                else:
                    # "an intron overlapped by the read's span": demanded from the code's own threshold (minimal_intron_absence_overlap) on
                    long_overlap = AND(span[1] - f[0] + 1 >= MIN_ABSENCE_OVERLAP, f[1] - span[0] + 1 >= MIN_ABSENCE_OVERLAP,
                                       span[1] - span[0] + 1 >= MIN_ABSENCE_OVERLAP, f[1] - f[0] + 1 >= MIN_ABSENCE_OVERLAP)
                    must = AND(NOT(any_match), OR(AND(span[0] <= f[0], f[1] <= span[1]), long_overlap))
                    may = OR(AND(span[0] <= f[1], f[0] <= span[1]), any_match)
                g.check(IMPLIES(must, exc == 1), "exclude when the read spans the feature without containing it", detail=det)
                g.check(IMPLIES(exc == 1, may), "exclude only for features covered by the read", detail=det)
                if grouped:
                    other = [x for x in groups if x != grp][0]
                    og = counter.group_numeric_ids.get(other)
                    g.check(og is None or AND(counter.inclusion_feature_counter[row.id].get(og) == 0,
                                              counter.exclusion_feature_counter[row.id].get(og) == 0),
                            "a read is counted only under its own group", detail=det)
    return fn


def h_profile_history(locus, delta):
    """two reads with the same mapped span through ONE profile constructor (as process_genic does for a locus): the
    second read's profiles equal those of a fresh constructor and the first read's profiles are not changed afterwards"""
    def fn(g):
        gi = build_locus(locus, delta)
        d = delta
        # read A follows the first two exons of the first isoform (annotated splice sites, outer ends shifted together); read B has
        # the same span and either no intron or one intron whose sites lie within delta+1 of solver-chosen annotated sites
        ex = gi.all_isoforms_exons[LOCI[locus][0][0]]
        shift = g.int("span_shift", -d - 1, d + 1)          # both reads start / end this far from the annotated borders
        a = [(ex[0][0] + shift, ex[0][1]), (ex[1][0], ex[1][1] + shift)]
        spliced_b = bool(g.bool("readB_spliced"))
        if spliced_b:
            introns = gi.intron_profiles.features
            inside = [f for f in introns if f[0] > ex[0][0] + 20 and f[1] < ex[1][1] - 20]
            f1 = inside[g.choice("readB_donor_of", len(inside))]
            f2 = inside[g.choice("readB_acceptor_of", len(inside))]
            b_mid = (f1[0] - 1 + g.int("readB_donor_jitter", -d - 1, d + 1), f2[1] + 1 + g.int("readB_acceptor_jitter", -d - 1, d + 1))
            g.add(b_mid[0] + 2 * d + 2 < b_mid[1])
            b = [(a[0][0], b_mid[0]), (b_mid[1], a[1][1])]
        else:
            b = [(a[0][0], a[1][1])]
        info = PolyAInfo(-1, -1, -1, -1)
        pc = lrp.CombinedProfileConstructor(gi, params_for(d))
        pa = call(g, pc.construct_profiles, a, info, [])
        snap = [list(pa.read_intron_profile.gene_profile), list(pa.read_exon_profile.gene_profile)]
        pb = call(g, pc.construct_profiles, b, info, [])
        fresh = call(g, lrp.CombinedProfileConstructor(gi, params_for(d)).construct_profiles, b, info, [])
        for name, x, y in (("intron", pb.read_intron_profile, fresh.read_intron_profile), ("exon", pb.read_exon_profile, fresh.read_exon_profile)):
            g.check(AND([u == v for u, v in zip(x.gene_profile, y.gene_profile)]) and len(x.gene_profile) == len(y.gene_profile),
                    "the %s profile of a read does not depend on the reads profiled before it" % name,
                    detail={"after_another_read": str(list(x.gene_profile)), "fresh": str(list(y.gene_profile))})
        g.check(AND([u == v for u, v in zip(snap[0], pa.read_intron_profile.gene_profile)] +
                    [u == v for u, v in zip(snap[1], pa.read_exon_profile.gene_profile)]),
                "the profiles returned for a read are not changed by profiling another read")
    return fn


def instances(tier, seed):
    q = tier == "quick"
    F = ["src.long_read_profiles:CombinedProfileConstructor.construct_profiles",
         "src.long_read_profiles:OverlappingFeaturesProfileConstructor.construct_exon_profile",
         "src.long_read_profiles:OverlappingFeaturesProfileConstructor.construct_intron_profile",
         "src.long_read_profiles:OverlappingFeaturesProfileConstructor.construct_profile_for_features",
         "src.long_read_counter:ProfileFeatureCounter.add_read_info_from_profile", "src.long_read_counter:ExonCounter.add_read_info",
         "src.long_read_counter:IntronCounter.add_read_info", "src.gene_info:GeneInfo.set_feature_properties", "src.gene_info:GeneInfo.from_models"]
    out = []
    loci = sorted(LOCI)
    for li, locus in enumerate(loci):
        for delta in ((6,) if q else (0, 4, 6, 12)):
            out.append(Instance("feature_table[%s,delta=%d]" % (locus, delta), h_feature_table(locus, delta),
                                ["src.gene_info:GeneInfo.set_feature_properties", "src.gene_info:FeatureInfo.__init__"], "catalogue locus", weight=1))
            if (q and li == seed % len(loci)) or (not q and delta != 6):
                out.append(Instance("recount[%s,delta=%d,exons=2,first exon anchored]" % (locus, delta), h_recount(locus, delta, 2, li % 2 == 0, True), F,
                                    "locus %s, first read exon within delta+1 of an annotated exon, second exon free" % locus, weight=2000, budget_s=2400))
            ks = (1,) if (q or delta != 6) else (1, 2)
            for k in ks:
                grouped = (li + k + seed) % 2 == 0 if q else None
                for gr in ([grouped] if q else ([False, True] if k == 1 else [li == 0])):
                    out.append(Instance("recount[%s,delta=%d,exons=%d,%s]" % (locus, delta, k, "grouped" if gr else "ungrouped"),
                                        h_recount(locus, delta, k, gr, False, "light" if q else True), F,
                                        "locus %s, read with %d exons of free coordinates, with/without polyA tail and polyT head, delta=%d" % (locus, k, delta),
                                        weight=30 ** k, budget_s=2400))
    for li, locus in enumerate(loci):
        out.append(Instance("profile_history[%s]" % locus, h_profile_history(locus, 6), F[:4],
                            "locus %s, two reads with the same span through one constructor, symbolic coordinates" % locus, weight=400, budget_s=1200))
    # the profiles reach the counters: one BAM record through the real process_genic (shared with C05)
    from props import genic
    for locus, tid, n in ([("skip", "T1", 3), ("alt_ends", "T8", 3)] if q else [(l, m[0], len(m[3])) for l in sorted(genic.LOCI) for m in genic.LOCI[l] if len(m[3]) > 1]):
        out.append(Instance("genic_record[%s,%s]" % (locus, tid), genic.h_genic(locus, tid, 0, n - 1),
                            ["src.alignment_processor:AlignmentCollector.process_genic", "src.alignment_info:AlignmentInfo.__init__",
                             "src.alignment_info:AlignmentInfo.construct_profiles", "src.common:get_read_blocks"],
                            "one BAM record following %s of locus %s (symbolic coordinates, flags, MAPQ) through process_genic" % (tid, locus),
                            weight=300, budget_s=1200))
    from props import c09
    for n in ((2,) if q else (2, 3)):
        out.append(Instance("two_reads_grouped[%d]" % n, c09.h_profile_groups(n), ["src.long_read_counter:ProfileFeatureCounter.add_read_info_from_profile"],
                            "2 reads x 2 features x %d groups: every read is counted under its own group only" % n, weight=20))
    return out
