"""C09 - grouped tables partition the ungrouped ones; matrix and linear formats agree."""
import itertools
import os
import shutil
import tempfile

import src.long_read_counter as lrc
import src.read_groups as read_groups
import src.isoform_assignment as ia

from vlib import shims, symx, crosshair_lane
from vlib.symenum import SymEnum
from vlib.runner import Instance
from vlib.spec import AND, OR, NOT, ITE, IMPLIES, IFF, SUM, call

PROPERTY = "C09"
RT = ia.ReadAssignmentType
EXPLANATION = ("Grouped counting: one inductive step from an arbitrary grouped counter state (a fresh symbolic real per "
               "feature x group), with the group universe handed to the counter in an ORDER CHOSEN BY THE SOLVER (models set "
               "iteration order / hash seed); the real add_read_info and dump_grouped run, both renderings are parsed back "
               "through sentinel tokens and z3 proves the partition and format-agreement obligations. Group lookup of the "
               "four groupers: presence bits symbolic (symx) and read-id strings symbolic (CrossHair).")
STUBS = ["pysam alignment -> fake with query_name / get_tag", "pysam.AlignmentFile -> fake BAM yielding solver-chosen (read, chromosome) records", "printed numbers are sentinel tokens parsed back into the symbolic terms",
         "set of read groups -> list in a solver-chosen permutation"]
ASSUMPTIONS = ["read-id delimiters do not overlap themselves (a 2-character delimiter has two different characters)",
               "group names and feature names are concrete catalogue strings; counts are exact rationals",
               "the documented group of a read: file label / tag value / suffix after the LAST delimiter / table entry; NA when missing"]
OUTSIDE = ["pysam's own iteration over BAM files", "thread-count dependence of group discovery"]

FEATS = ["F1", "F2"]
_tmp = {"dir": None}


def setup_symbolic():
    shims.install([lrc], ["float"])
    from props import handoff, c12
    handoff.setup_symbolic()
    c12.setup_symbolic()


def tmpdir():
    if _tmp["dir"] is None or not os.path.isdir(_tmp["dir"]):
        _tmp["dir"] = tempfile.mkdtemp(prefix="verif_c09_")
        import atexit
        atexit.register(shutil.rmtree, _tmp["dir"], True)
    return _tmp["dir"]


def fresh_prefix(name):
    d = os.path.join(tmpdir(), name)
    if os.path.isdir(d):
        shutil.rmtree(d)
    os.makedirs(d)
    return os.path.join(d, "smp")


class Obj:
    def __init__(self, **kw):
        self.__dict__.update(kw)


def h_tag_grouper(g):
    """--read_group tag:TAG for every BAM tag type: the group id is the text of the tag value (NA without the tag), it is a member
    of the group universe, and it survives the intermediate file (groups are written with write_string)"""
    import io as _io
    import src.serialization as ser
    kind = ["absent", "string", "integer", "negative integer", "float"][g.choice("tag_type", 5)]
    value = {"absent": None, "string": "cell_A", "integer": g.int("tag_value", 0, 255), "negative integer": -g.int("tag_magnitude", 1, 100), "float": 0.5}[kind]

    class Al:
        query_name = "r1"

        def get_tag(self, tag):
            if value is None:
                raise KeyError(tag)
            return value
    gr = read_groups.AlignmentTagReadGrouper("HP")
    r = call(g, gr.get_group_id, Al())
    det = {"tag_type": kind, "returned": repr(r)[:60]}
    g.check(isinstance(r, str), "the group id of a tagged read is a text label whatever the type of the BAM tag", detail=det)
    g.check(any(x is r or (isinstance(x, str) and isinstance(r, str) and x == r) for x in gr.read_groups), "the label is a member of the group universe", detail=det)
    if kind == "absent":
        g.check(r == "NA", "reads without the tag are in NA")
    elif kind == "string":
        g.check(r == "cell_A", "string tags are taken verbatim")
    if isinstance(r, str):
        buf = _io.BytesIO()
        call(g, ser.write_string, r, buf)
        buf.seek(0)
        g.check(call(g, ser.read_string, buf) == r, "the label survives the intermediate file")


def h_aggregator(g):
    """the counters as the real ReadAssignmentAggregator builds them for an experiment with read groups: for every combination of
    --gene_quantification / --transcript_quantification and every assignment class of one read, the per-group gene and transcript
    counts sum to the ungrouped ones"""
    import src.dataset_processor as dp
    from src.input_data_storage import SampleData
    from props.c02 import STRATEGIES
    g.batch = True
    shims.CURRENT["g"] = g if g.symbolic else None
    gs, ts = STRATEGIES[g.choice("gene_quantification", len(STRATEGIES))], STRATEGIES[g.choice("transcript_quantification", len(STRATEGIES))]
    d = fresh_prefix("agg")
    os.makedirs(d, exist_ok=True)
    os.makedirs(os.path.join(d, "aux"), exist_ok=True)
    sample = SampleData([["x.bam"]], "smp", d, {}, None)
    args = Obj(_cmd_line="x", _version="v", counts_format="both", genedb="annotation.db", sqanti_output=False, no_model_construction=True,
               count_exons=False, read_group="tag:RG", gene_quantification=gs, transcript_quantification=ts, check_canonical=False, cage=None,
               print_additional_info=False, gzipped=False)
    groups = ["gA", "gB", "NA"]
    agg = call(g, dp.ReadAssignmentAggregator, args, sample, groups)
    tt = SymEnum(g, RT, "type", allowed=[m for m in RT if m != RT.suspended])
    tg = SymEnum(g, RT, "gene_type", allowed=[m for m in RT if m != RT.suspended])
    g.add(OR(tg == tt, AND(tt == RT.ambiguous, tg == RT.unique), AND(tt == RT.inconsistent_ambiguous, tg == RT.inconsistent)))
    k = 1 + g.choice("n_isoforms", 2)
    g.assume(IMPLIES(k != 1, NOT(tt.is_unique())))
    one_gene = bool(g.bool("isoforms_of_one_gene"))
    g.assume(IMPLIES(k != 1 and not one_gene, NOT(tg.is_unique())))
    matches = [Obj(assigned_gene="F1" if (one_gene or i == 0) else "F2", assigned_transcript=FEATS[i]) for i in range(k)]
    rgroup = groups[g.choice("read_group", len(groups))]
    ra = Obj(read_id="r", assignment_type=tt, gene_assignment_type=tg, read_group=rgroup, isoform_matches=matches,
             gene_info=Obj(all_isoforms_introns={f: [(10, 20)] for f in FEATS}), corrected_exons=[(1, 9), (21, 30)])
    for c in (agg.gene_counter, agg.gene_grouped_counter, agg.transcript_counter, agg.transcript_grouped_counter):
        call(g, c.add_read_info, ra)
    det = {"gene_quantification": gs, "transcript_quantification": ts}
    for what, cu, cg in (("gene", agg.gene_counter, agg.gene_grouped_counter), ("transcript", agg.transcript_counter, agg.transcript_grouped_counter)):
        for f in FEATS:
            tot = SUM([cg.feature_counter[f].get(cg.group_numeric_ids[name]) for name in groups])
            g.check(tot == cu.feature_counter[f].get(0), "per-group %s counts of an experiment sum to its ungrouped %s count" % (what, what), detail=dict(det, feature=f))
    for pr in (agg.corrected_bed_printer, getattr(agg, "basic_printer", None)):
        out_file = getattr(pr, "output_file", None)
        if out_file is not None:
            out_file.close()


def h_grouped(groups, fmt):
    """groups: sorted list of group names; the counter receives them in a solver-chosen order"""
    perms = list(itertools.permutations(groups))

    def fn(g):
        g.batch = True
        shims.CURRENT["g"] = g if g.symbolic else None
        order = list(perms[g.choice("group_iteration_order", len(perms))])
        gf = lrc.GroupedOutputFormat[fmt]
        cg = lrc.create_gene_counter(fresh_prefix("grp"), "with_ambiguous", read_groups=order, grouped_format=gf)
        cu = lrc.create_gene_counter(fresh_prefix("ungrp"), "with_ambiguous")
        pre = {}
        for f in FEATS:
            tot = 0
            for name in groups:
                v = g.real("pre_%s_%s" % (f, name), 0)
                pre[(f, name)] = v
                cg.feature_counter[f].data[cg.group_numeric_ids[name]] = v
                tot = tot + v
            cu.feature_counter[f].data = {0: tot}
        for c in (cg, cu):
            c.all_features = set(FEATS)
            c.confirmed_features = set(FEATS)
        t = SymEnum(g, RT, "type", allowed=[RT.unique, RT.ambiguous, RT.inconsistent, RT.noninformative])
        k = g.choice("n_features", 3)
        feats = FEATS[:k] if k else []
        if k != 1:
            g.assume(NOT(t.is_unique()))
        rgroup = groups[g.choice("read_group", len(groups))]
        ra = Obj(read_id="r", assignment_type=t, gene_assignment_type=t, read_group=rgroup,
                 isoform_matches=[Obj(assigned_gene=f, assigned_transcript=f) for f in feats],
                 gene_info=Obj(all_isoforms_introns={f: [] for f in FEATS}), corrected_exons=[(1, 2)])
        call(g, cg.add_read_info, ra)
        call(g, cu.add_read_info, ra)
        # partition: for every feature the per-group values sum to the ungrouped value
        for f in FEATS:
            tot = SUM([cg.feature_counter[f].get(cg.group_numeric_ids[name]) for name in groups])
            g.check(tot == cu.feature_counter[f].get(0), "per-group counts sum to the ungrouped count")
            for name in groups:
                if name != rgroup:
                    g.check(cg.feature_counter[f].get(cg.group_numeric_ids[name]) == pre[(f, name)],
                            "a read changes only the column of its own group")
        expected = {(f, name): cg.feature_counter[f].get(cg.group_numeric_ids[name]) for f in FEATS for name in groups}
        call(g, cg.dump)
        matrix, linear = {}, {}
        if gf.output_matrix():
            header = None
            for line in open(cg.output_counts_file_name):
                fs = line.rstrip("\n").split("\t")
                if line.startswith("#"):
                    header = fs[1:]
                    continue
                for name, x in zip(header, fs[1:]):
                    matrix[(fs[0], name)] = g.unsentinel_real(x)
            g.check(header == sorted(groups), "matrix header lists the groups in sorted order")
            for key, v in expected.items():
                g.check(key in matrix and matrix[key] == v, "matrix cell (feature, group) = count of that group",
                        detail={"order": order, "cell": list(key)})
        if gf.output_linear():
            for line in open(cg.linear_output_file):
                if line.startswith("#"):
                    continue
                f, name, x = line.rstrip("\n").split("\t")
                g.check((f, name) not in linear, "linear rendering lists a (feature, group) pair once")
                linear[(f, name)] = g.unsentinel_real(x)
            for key, v in expected.items():
                g.check(key in linear and linear[key] == v, "linear triple (feature, group, value) = count of that group",
                        detail={"order": order, "triple": list(key)})
        if gf.output_matrix() and gf.output_linear():
            g.check(set(matrix) == set(linear) and AND([matrix[k_] == linear[k_] for k_ in matrix if k_ in linear]),
                    "matrix and linear renderings contain identical triples", detail={"order": order})
    return fn


# ------------------------------------------------------------------------------ group lookup
class FakeAlignment:
    def __init__(self, name, tags):
        self.query_name = name
        self.tags = tags

    def get_tag(self, t):
        if t not in self.tags:
            raise KeyError(t)
        return self.tags[t]


def h_lookup(g):
    has_tag = bool(g.bool("tag_present"))
    in_table = bool(g.bool("read_in_table"))
    file_known = g.choice("file_name_case", 3)
    al = FakeAlignment("read_7", {"RG": "grpA"} if has_tag else {"XX": "other"})
    gr = read_groups.AlignmentTagReadGrouper("RG")
    r = call(g, gr.get_group_id, al)
    g.check(r == ("grpA" if has_tag else "NA"), "tag grouper: tag value, NA when the tag is missing")
    g.check(r in gr.read_groups, "returned group is registered in the group universe")
    tg = read_groups.ReadTableGrouper.__new__(read_groups.ReadTableGrouper)
    read_groups.AbstractReadGrouper.__init__(tg)
    tg.read_map = {"read_7": "cellB"} if in_table else {"read_8": "cellB"}
    r = call(g, tg.get_group_id, al)
    g.check(r == ("cellB" if in_table else "NA"), "table grouper: table entry, NA when the read has no row")
    g.check(r in tg.read_groups, "returned group is registered in the group universe")
    fg = read_groups.FileNameGrouper.__new__(read_groups.FileNameGrouper)
    read_groups.AbstractReadGrouper.__init__(fg)
    fg.readable_names_dict = {"/d/a.bam": "labelA"}
    fname = ["/d/a.bam", "/d/b.bam", None][file_known]
    r = call(g, fg.get_group_id, al, fname)
    g.check(r == ["labelA", "/d/b.bam", "NA"][file_known], "file-name grouper: label of the file, NA without a file")
    g.check(r in fg.read_groups, "returned group is registered in the group universe")
    dg = read_groups.DefaultReadGrouper()
    g.check(call(g, dg.get_group_id, al) == "NA", "default grouper")


def split_contract():
    lines = [
        "from src.read_groups import ReadIdSplitReadGrouper",
        "",
        "",
        "class _Al:",
        "    def __init__(self, n):",
        "        self.query_name = n",
        "",
        "",
        "def PRE(read_id, delim):",
        "    return len(read_id) <= 4 and 1 <= len(delim) <= 2 and (len(delim) == 1 or delim[0] != delim[1])",
        "",
        "",
        "def _split_group(read_id: str, delim: str) -> bool:",
        "    '''",
        "    pre: len(read_id) <= 4 and 1 <= len(delim) <= 2",
        "    pre: len(delim) == 1 or delim[0] != delim[1]",
        "    post: _ == True",
        "    '''",
        "    gr = ReadIdSplitReadGrouper(delim)",
        "    r = gr.get_group_id(_Al(read_id))",
        "    i = read_id.rfind(delim)",
        "    expected = 'NA' if i < 0 else read_id[i + len(delim):]",
        "    return r == expected and r in gr.read_groups",
        "",
    ]
    return "\n".join(lines)


def props_contract():
    lines = [
        "from src.read_groups import get_file_grouping_properties",
        "ALLOWED_EXCEPTIONS = (ValueError,)",
        "",
        "",
        "def PRE(a, b, c):",
        "    return len(a) <= 2 and len(b) <= 2 and len(c) <= 2",
        "",
        "",
        "def _file_props(a: str, b: str, c: str) -> bool:",
        "    '''",
        "    pre: len(a) <= 2 and len(b) <= 2 and len(c) <= 2",
        "    post: _ == True",
        "    raises: ValueError",
        "    '''",
        "    r3 = get_file_grouping_properties(['file', a])",
        "    r5 = get_file_grouping_properties(['file', a, b, c])",
        "    return r3 == (a, 0, 1, '\\t') and r5[0] == a and r5[1] == int(b) and r5[2] == int(c) and r5[3] == '\\t'",
        "",
    ]
    return "\n".join(lines)


CONTRACTS = {"_split_group": split_contract, "_file_props": props_contract}


def replay_custom(inst, case):
    fn = inst.meta["contract"]
    return crosshair_lane.replay_contract(fn, CONTRACTS[fn](), case["model"]["__crosshair_args"])


def h_profile_groups(n_groups):
    """ProfileFeatureCounter: grouped include/exclude counts partition the ungrouped ones"""
    def fn(g):
        shims.CURRENT["g"] = g if g.symbolic else None
        cg = lrc.ExonCounter(fresh_prefix("ex_g"), ignore_read_groups=False)
        cu = lrc.ExonCounter(fresh_prefix("ex_u"), ignore_read_groups=True)
        names = ["gA", "gB", "NA"][:n_groups]
        pmap = [Obj(id=100 + i, to_str=(lambda i=i: "chr1\t%d\t%d\t+\texon\tG" % (10 * i, 10 * i + 5))) for i in range(2)]
        reads = []
        for r in range(2):
            prof = [g.int("read%d_feature%d" % (r, i), -2, 1) for i in range(2)]
            grp = names[g.choice("read%d_group" % r, n_groups)]
            reads.append((prof, grp))
            ra = Obj(exon_gene_profile=prof, intron_gene_profile=[], gene_info=Obj(exon_property_map=pmap, intron_property_map=[]),
                     read_group=grp)
            call(g, cg.add_read_info, ra)
            call(g, cu.add_read_info, ra)
        for i in range(2):
            fid = 100 + i
            inc = SUM([ITE(prof[i] == 1, 1, 0) for prof, _ in reads])
            exc = SUM([ITE(prof[i] == -1, 1, 0) for prof, _ in reads])
            g.check(cu.inclusion_feature_counter[fid].get(0) == inc, "ungrouped include count = number of reads containing the feature")
            g.check(cu.exclusion_feature_counter[fid].get(0) == exc, "ungrouped exclude count = number of reads skipping the feature")
            gi = SUM([cg.inclusion_feature_counter[fid].get(cg.group_numeric_ids[n]) for n in names if n in cg.group_numeric_ids])
            ge = SUM([cg.exclusion_feature_counter[fid].get(cg.group_numeric_ids[n]) for n in names if n in cg.group_numeric_ids])
            g.check(AND(gi == inc, ge == exc), "grouped include/exclude counts sum to the ungrouped ones")
            for n in names:
                if n in cg.group_numeric_ids:
                    want = SUM([ITE(prof[i] == 1, 1, 0) for prof, grp in reads if grp == n])
                    g.check(cg.inclusion_feature_counter[fid].get(cg.group_numeric_ids[n]) == want, "each read is counted under its own group")
    return fn


class FakeBam:
    def __init__(self, references, alignments):
        self.references = references
        self._al = alignments

    def __iter__(self):
        return iter(self._al)


def h_split_table(n_al):
    """split_read_group_table + ReadTableGrouper: a read listed in the table is found under its group on EVERY
    chromosome it aligns to (file mode)"""
    def fn(g):
        d = os.path.dirname(fresh_prefix("tbl"))
        table = os.path.join(d, "groups.tsv")
        with open(table, "w") as fh:
            fh.write("#read\tgroup\nr1\tG1\nr2\tG2\n")
        chrs = ["chrA", "chrB"]
        reads = ["r1", "r2", "r3"]
        als = []
        for i in range(n_al):
            c = g.choice("alignment%d_chr" % i, 3)
            r = g.choice("alignment%d_read" % i, 3)
            als.append(Obj(reference_name=(chrs[c] if c < 2 else None), query_name=reads[r]))
        n_files = 1 + g.choice("extra_bam_file", 2)
        split = g.choice("file_split", n_al + 1) if n_files == 2 else n_al
        files = {"/x/a.bam": FakeBam(chrs, als[:split]), "/x/b.bam": FakeBam(chrs, als[split:])}
        fake_pysam = Obj(AlignmentFile=lambda name, mode="rb", **kw: files[name])
        sample = Obj(file_list=[["/x/a.bam"], ["/x/b.bam"]][:n_files], read_group_file=os.path.join(d, "smp.read_group"))
        old = read_groups.pysam
        read_groups.pysam = fake_pysam
        try:
            call(g, read_groups.split_read_group_table, table, sample, 0, 1, "\t")
        finally:
            read_groups.pysam = old
        for ch in chrs:
            gr = call(g, read_groups.ReadTableGrouper, sample.read_group_file + "_" + ch, 0, 1, "\t")
            for a in als[:n_al if n_files == 2 else split]:
                if a.reference_name != ch:
                    continue
                want = {"r1": "G1", "r2": "G2"}.get(a.query_name, "NA")
                g.check(call(g, gr.get_group_id, a) == want, "table grouper returns the table entry on every chromosome the read aligns to",
                        detail={"chr": ch, "read": a.query_name})
    return fn


def instances(tier, seed):
    q = tier == "quick"
    AGG = Instance("aggregator_counters", h_aggregator, ["src.dataset_processor:ReadAssignmentAggregator.__init__", "src.long_read_counter:create_gene_counter",
                                                       "src.long_read_counter:create_transcript_counter", "src.long_read_counter:AssignedFeatureCounter.add_read_info"],
                   "5 x 5 quantification strategies, one read of any assignment class with 1-2 isoforms in any of 3 groups", weight=200, budget_s=900)
    L = "src.long_read_counter:"
    F = [L + "AssignedFeatureCounter.__init__", L + "AssignedFeatureCounter.add_read_info", L + "AssignedFeatureCounter.dump",
         L + "AssignedFeatureCounter.dump_grouped", L + "AssignedFeatureCounter.format_header"]
    out = [AGG, Instance("tag_grouper", h_tag_grouper, ["src.read_groups:AlignmentTagReadGrouper.get_group_id", "src.serialization:write_string"],
                         "tag absent / string / integer (symbolic) / negative integer / float", weight=5)]
    # --read_group file_name: the merger's index must identify the file a record came from (shared with C12)
    from props import c12
    for n_, k_ in ([(2, 2), (3, 3)] if q else [(2, 2), (3, 2), (3, 3), (4, 3)]):
        out.append(Instance("merger_file_index[records=%d,files=%d]" % (n_, k_), c12.h_merger(n_, k_),
                            ["src.alignment_processor:BAMOnlineMerger._set", "src.alignment_processor:BAMOnlineMerger.get"],
                            "%d records spread over %d files by the solver (files may be empty)" % (n_, k_), weight=10 * n_ * k_))
    group_sets = [["NA", "A"], ["b", "a", "NA"]] if q else [["NA", "A"], ["NA", "a"], ["b", "a", "NA"], ["10", "NA", "b", "B"]]
    for gs in group_sets:
        for fmt in ("both",) if q else ("both", "matrix", "linear"):
            out.append(Instance("grouped[%s,%s]" % ("|".join(sorted(gs)), fmt), h_grouped(sorted(gs), fmt), F,
                                "%d groups in every iteration order x 2 features, arbitrary grouped state, one read" % len(gs),
                                weight=len(gs) ** 3, budget_s=1800))
    R = "src.read_groups:"
    out.append(Instance("lookup", h_lookup, [R + "AlignmentTagReadGrouper.get_group_id", R + "ReadTableGrouper.get_group_id",
                                             R + "FileNameGrouper.get_group_id", R + "DefaultReadGrouper.get_group_id"],
                        "presence of tag / table row / file label symbolic", weight=1))
    out.append(Instance("read_id_split[crosshair]", run=crosshair_lane.lane_run("_split_group", split_contract(), 60 if q else 400),
                        funcs=[R + "ReadIdSplitReadGrouper.get_group_id"], kind="crosshair", meta={"contract": "_split_group"},
                        bounds="CrossHair: read id <= 4 chars, delimiter 1-2 chars, any characters", weight=1000))
    out.append(Instance("file_props[crosshair]", run=crosshair_lane.lane_run("_file_props", props_contract(), 40 if q else 200),
                        funcs=[R + "get_file_grouping_properties"], kind="crosshair", meta={"contract": "_file_props"},
                        bounds="CrossHair: option fields <= 2 chars", weight=900))
    for n in ((2, 3) if q else (2, 3, 4)):
        out.append(Instance("split_table[%d]" % n, h_split_table(n), [R + "split_read_group_table", R + "load_table", R + "ReadTableGrouper.get_group_id"],
                            "%d alignments with solver-chosen read/chromosome, 1-2 BAM files" % n, weight=9 ** n, budget_s=900))
    from props import handoff
    for n in ((2,) if q else (2, 3)):
        out.append(Instance("group_universe_handoff[%d]" % n, handoff.h_handoff(n, ("A", "")),
                            ["src.dataset_processor:DatasetProcessor.collect_reads", "src.serialization:write_list", "src.serialization:read_list"],
                            "%d alignments with solver-chosen groups (incl. the empty-string group) on two chromosomes" % n, weight=3000, budget_s=1800))
    for n in ((2,) if q else (2, 3)):
        out.append(Instance("profile_groups[%d]" % n, h_profile_groups(n), [L + "ProfileFeatureCounter.add_read_info_from_profile",
                                                                           L + "ExonCounter.add_read_info"],
                            "2 reads x 2 features x %d groups" % n, weight=20))
    return out
