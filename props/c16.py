"""C16 - alignment records become exon blocks exactly as SAM semantics dictate; polyA exon trimming."""
import itertools
import time

import src.common as common
import src.alignment_info as alignment_info
import src.polya_finder as polya_finder
import src.polya_verification as polya_verification

from vlib import shims, symx
from vlib.runner import Instance
from vlib.spec import (AND, OR, NOT, ITE, IMPLIES, IFF, SUM, sorted_disjoint, interval_list, call, sym_min, sym_max)

PROPERTY = "C16"
EXPLANATION = ("CIGAR walk: for every operator string (concrete skeleton) up to the bound, all operation lengths "
               "and the reference start are symbolic (>=1 / >=0); the real get_read_blocks is executed on them and "
               "compared with an independent fold of the SAM specification. PolyA trimming: exon coordinates and "
               "the four detected tail positions are symbolic.")
STUBS = ["PolyAFinder.detect_polya -> returns four arbitrary symbolic positions (each -1 or >= 1): the contract of the "
         "sequence scanner, whose string windows are not encoded",
         "alignment object -> fake with reference_start / cigartuples"]
ASSUMPTIONS = [
    "operation lengths >= 1, reference_start >= 0 (SAM)",
    "CIGAR strings are SAM-valid in their clipping: H only as first/last operation, S only at the ends (inside H)",
    "an exon is reported iff its segment between N gaps / clips contains at least one M/=/X operation",
    "detected tail positions: internal polyA/polyT positions are -1 or lie on an exon of the read (they are reference "
    "projections of aligned read bases); external ones are -1 or lie in/beyond the terminal exon of their side "
    "(over-approximation of the scanner otherwise)",
]
OUTSIDE = ["operator strings longer than the bound", "PolyAFinder.find_polya_tail/find_polyt_head string scanning",
           "pysam's own CIGAR decoding", "concat_gapless_blocks (only used by the legacy src/10x_profiles.py)"]

M, I, D, N, S, H, EQ, X = 0, 1, 2, 3, 4, 5, 7, 8
OPS = [M, I, D, N, S, H, EQ, X]
MATCH = (M, EQ, X)


def setup_symbolic():
    shims.install([polya_verification, alignment_info, polya_finder], ["min", "max"])


def valid_clipping(ops):
    n = len(ops)
    for i, op in enumerate(ops):
        if op == H and i not in (0, n - 1):
            return False
        if op == S:
            left_ok = all(o == H for o in ops[:i])
            right_ok = all(o == H for o in ops[i + 1:])
            if not (left_ok or right_ok):
                return False
    return True


def sam_fold(ref_start, ops, lens):
    """independent reading of the SAM spec: list of (ref_lo, ref_hi, q_lo, q_hi, op_lo, op_hi)"""
    ref = ref_start + 1      # 1-based position of the next reference base
    q = 0
    segs = []
    cur = None

    def close():
        nonlocal cur
        if cur is not None and cur["m"]:
            segs.append((cur["r0"], cur["r1"], cur["q0"], cur["q1"], cur["c0"], cur["c1"]))
        cur = None
    for k, (op, l) in enumerate(zip(ops, lens)):
        if op in MATCH or op in (I, D):
            if cur is None:
                cur = {"r0": ref, "q0": q, "m": False, "c0": k}
            if op in MATCH:
                ref = ref + l
                q = q + l
                cur["m"] = True
            elif op == I:
                q = q + l
            else:
                ref = ref + l
            cur["r1"] = ref - 1
            cur["q1"] = q - 1
            cur["c1"] = k
        elif op == N:
            close()
            ref = ref + l
        elif op == S:
            close()
            q = q + l
    close()
    return segs, q


def h_cigar(ops):
    def fn(g):
        rs = g.int("ref_start", 0)
        lens = [g.int("len%d" % i, 1) for i in range(len(ops))]
        ref_blocks, read_blocks, cig_blocks = call(g, common.get_read_blocks, rs, list(zip(ops, lens)))
        exp, qlen = sam_fold(rs, ops, lens)
        detail = {"cigar": "".join("MIDNSHP=X"[o] for o in ops)}
        if len(exp) != len(ref_blocks) or len(exp) != len(read_blocks) or len(exp) != len(cig_blocks):
            g.fail("number of exons differs from the SAM fold", detail=detail)
            return
        conds = []
        for (a, b, qa, qb, c0, c1), rb, qb2, cb in zip(exp, ref_blocks, read_blocks, cig_blocks):
            conds += [a == rb[0], b == rb[1], qa == qb2[0], qb == qb2[1]]
            # cigar_blocks (operation index ranges, not part of the property and without a reader in the
            # pipeline): only required to start at the segment and to cover it, trailing H tolerated
            conds += [c0 == cb[0], c1 <= cb[1], all(ops[k] == H for k in range(c1 + 1, cb[1] + 1))]
        g.check(AND(conds) if conds else True, "exons and read blocks = SAM fold", detail=detail)
        if ref_blocks:
            g.check(AND(sorted_disjoint(ref_blocks, gap=1), ref_blocks[0][0] >= 1), "exons ascending, 1-based, non-empty",
                    detail=detail)
            g.check(AND([AND(0 <= b[0], b[1] < qlen) for b in read_blocks]), "read blocks inside the query sequence",
                    detail=detail)
            cb = call(g, common.correct_bam_coords, [(a - 1, b) for a, b in ref_blocks])
            g.check(AND([AND(x[0] == y[0], x[1] == y[1]) for x, y in zip(cb, ref_blocks)]), "correct_bam_coords",
                    detail=detail)
    return fn


def run_cigar_group(first, max_len):
    """custom lane: all valid skeletons starting with the operator prefix `first` up to max_len"""
    def run(ctx):
        g = symx.Engine(seed=ctx["seed"], active_findings=ctx["active"])
        g.max_samples = 1
        n = 0
        deadline = time.time() + ctx["budget_s"]
        for L in range(len(first), max_len + 1):
            for rest in itertools.product(OPS, repeat=L - len(first)):
                ops = tuple(first) + rest
                if not valid_clipping(ops):
                    continue
                n += 1
                if time.time() > deadline:
                    g.inconclusive.append("time budget exhausted after %d skeletons" % n)
                    break
                cex = g.explore(h_cigar(ops))
                if cex is not None:
                    st = g.stats()
                    st["skeletons"] = n
                    cex.model["__ops"] = list(ops)
                    st["cex"] = {"label": cex.label, "model": cex.model, "detail": cex.detail}
                    return st
        st = g.stats()
        st["skeletons"] = n
        return st
    return run


# ------------------------------------------------------------------------------ move_ref_coord
class FakeAlignment:
    def __init__(self, reference_start, cigartuples):
        self.reference_start = reference_start
        self.cigartuples = cigartuples
        self.query_name = "r"


def h_move(ops, backward):
    """move_ref_coord_alogn_alignment: reference offset of the read base `shift` positions into the
    aligned part (from the start, or from the end for negative shifts)"""
    def fn(g):
        lens = [g.int("len%d" % i, 1) for i in range(len(ops))]
        shift = g.int("shift", 1)
        al = FakeAlignment(0, list(zip(ops, lens)))
        r = call(g, polya_finder.move_ref_coord_alogn_alignment, al, -shift if backward else shift)
        seq = list(zip(ops, lens))
        if backward:
            seq = seq[::-1]
        # skip the leading clipping exactly as SAM lays it out: [H] [S] body
        k = 0
        if len(seq) > 1 and seq[0][0] == H and seq[1][0] == S:
            k = 2
        elif seq[0][0] in (S, H):
            k = 1
        body = []
        for op, l in seq[k:]:
            if op in (S, H):
                break
            body.append((op, l))
        # specification, per operation: the target read base (0-based index `shift` among the
        # query-consuming bases) lies in operation j  <=>  qbefore_j <= shift < qbefore_j + qlen_j
        conds = []
        qb = 0
        rb = 0
        for op, l in body:
            if op in MATCH:
                inside = AND(qb <= shift, shift < qb + l)
                conds.append(IMPLIES(inside, r == rb + (shift - qb)))
                qb = qb + l
                rb = rb + l
            elif op == I:
                inside = AND(qb <= shift, shift < qb + l)
                conds.append(IMPLIES(inside, r == rb - 1))
                qb = qb + l
            elif op in (D, N):
                rb = rb + l
        conds.append(IMPLIES(shift >= qb, r == rb - 1))
        g.check(AND(conds), "move_ref_coord = reference offset of the shift-th read base",
                detail={"cigar": "".join("MIDNSHP=X"[o] for o in ops), "backward": backward})
    return fn


def run_move_group(first, max_len):
    def run(ctx):
        g = symx.Engine(seed=ctx["seed"], active_findings=ctx["active"])
        g.max_samples = 1
        n = 0
        for L in range(max(1, len(first)), max_len + 1):
            for rest in itertools.product(OPS, repeat=L - len(first)):
                ops = tuple(first) + rest
                if not valid_clipping(ops) or not any(o in MATCH for o in ops):
                    continue
                for backward in (False, True):
                    n += 1
                    cex = g.explore(h_move(ops, backward))
                    if cex is not None:
                        st = g.stats()
                        cex.model["__ops"] = list(ops)
                        cex.model["__backward"] = backward
                        st["cex"] = {"label": cex.label, "model": cex.model, "detail": cex.detail}
                        return st
        st = g.stats()
        st["skeletons"] = n
        return st
    return run


def replay_custom(inst, case):
    m = dict(case["model"])
    ops = tuple(m.pop("__ops"))
    g = symx.ConcreteEngine(m)
    fn = h_move(ops, m.pop("__backward")) if "__backward" in m else h_cigar(ops)
    try:
        fn(g)
    except symx.Counterexample as c:
        return True, "violated: %s cigar=%s" % (c.label, "".join("%s%s" % (m.get("len%d" % i), "MIDNSHP=X"[o]) for i, o in enumerate(ops)))
    except symx.PathAbort:
        return False, "assumptions not met"
    return False, "oracle satisfied"


# ------------------------------------------------------------------------------ polyA trimming
class Params:
    max_fake_terminal_exon_len = 40


class StubFinder:
    def __init__(self, info):
        self.info = info

    def detect_polya(self, alignment):
        return self.info


def pos_or_none(g, name):
    v = g.int(name, -1)
    g.add(v != 0)
    return v


def tail_contract(g, exons, info):
    """what PolyAFinder can return: internal positions are reference positions of aligned read bases
    (on an exon); external ones lie in or beyond the terminal exon on their side"""
    from vlib.spec import in_list
    g.assume(OR(info.internal_polya_pos == -1, in_list(info.internal_polya_pos, exons)))
    g.assume(OR(info.internal_polyt_pos == -1, in_list(info.internal_polyt_pos, exons)))
    g.assume(OR(info.external_polya_pos == -1, info.external_polya_pos >= exons[-1][0]))
    g.assume(OR(info.external_polyt_pos == -1, info.external_polyt_pos <= exons[0][1]))


def h_trim(n):
    def fn(g):
        exons = interval_list(g, "e", n, lo=1, gap=2)
        info = polya_finder.PolyAInfo(pos_or_none(g, "ext_polya"), pos_or_none(g, "ext_polyt"),
                                      pos_or_none(g, "int_polya"), pos_or_none(g, "int_polyt"))
        old = (info.external_polya_pos, info.external_polyt_pos, info.internal_polya_pos, info.internal_polyt_pos)
        tail_contract(g, exons, info)
        ai = alignment_info.AlignmentInfo.__new__(alignment_info.AlignmentInfo)
        ai.alignment = None
        ai.read_exons = list(exons)
        ai.read_blocks = [(i, i) for i in range(n)]
        ai.cigar_blocks = [(i, i) for i in range(n)]
        ai.read_start, ai.read_end = exons[0][0], exons[-1][1]
        ai.exons_changed = False
        p = Params()
        p.max_fake_terminal_exon_len = g.int("max_fake_terminal_exon_len", 0, 100)
        call(g, ai.add_polya_info, StubFinder(info), polya_verification.PolyAFixer(p))
        new = ai.read_exons
        g.check(len(new) >= 1, "trimmed exon list is not empty")
        if len(new) == 0:
            return
        g.check(sorted_disjoint(new, gap=2), "trimmed exon list is ordered")
        g.check(len(ai.read_blocks) == len(new) and len(ai.cigar_blocks) == len(new), "read/cigar blocks trimmed alike")
        g.check(AND(ai.read_start == new[0][0], ai.read_end == new[-1][1]), "read_start/read_end follow the trimmed exons")
        # the retained exons are a contiguous sub-list of the input
        first = [i for i in range(n) if new[0] is exons[i]]
        g.check(len(first) == 1 and all(new[k] is exons[first[0] + k] for k in range(len(new))),
                "retained exons are a contiguous run of the input exons")
        if len(first) != 1:
            return
        lo = first[0]
        hi = lo + len(new) - 1
        removed_right = exons[hi + 1:]
        removed_left = exons[:lo]
        ni = ai.polya_info
        if removed_right:
            for oldp, newp, nm in ((old[2], ni.internal_polya_pos, "internal"), (old[0], ni.external_polya_pos, "external")):
                # distance walked along the removed exons up to the tail position
                dist = SUM([sym_max(0, sym_min(e[1] + 1, oldp) - e[0]) for e in removed_right[:-1]]) + \
                    sym_max(0, oldp - removed_right[-1][0])
                g.check(IMPLIES(oldp != -1, AND(newp >= new[-1][1], newp == new[-1][1] + dist)),
                        "polyA position moved onto the retained exon (%s)" % nm)
                g.check(IMPLIES(oldp == -1, newp == -1), "absent polyA stays absent (%s)" % nm)
        if removed_left:
            for oldp, newp, nm in ((old[3], ni.internal_polyt_pos, "internal"), (old[1], ni.external_polyt_pos, "external")):
                dist = SUM([sym_max(0, e[1] - sym_max(e[0] - 1, oldp)) for e in removed_left[1:]]) + \
                    sym_max(0, removed_left[0][1] - oldp)
                g.check(IMPLIES(oldp != -1, AND(newp <= new[0][0], newp == new[0][0] - dist)),
                        "polyT position moved onto the retained exon (%s)" % nm)
                g.check(IMPLIES(oldp == -1, newp == -1), "absent polyT stays absent (%s)" % nm)
    return fn


def h_counts(n):
    """count_polya_exons / count_polyt_exons: never more than the exons beyond/at the tail, and the
    combination returned by correct_read_info always leaves at least one exon"""
    def fn(g):
        exons = interval_list(g, "e", n, lo=1, gap=2)
        p = Params()
        p.max_fake_terminal_exon_len = g.int("max_fake_terminal_exon_len", 0, 100)
        fixer = polya_verification.PolyAFixer(p)
        pa = pos_or_none(g, "int_polya")
        pt = pos_or_none(g, "int_polyt")
        info = polya_finder.PolyAInfo(-1, -1, pa, pt)
        tail_contract(g, exons, info)
        ca, ct = call(g, fixer.correct_read_info, exons, info)
        g.check(ca + ct < n if n > 1 else (ca == 0 and ct == 0), "correct_read_info leaves at least one exon")
        g.check(AND(ca <= n, ct <= n), "counts bounded by the number of exons")
        a = call(g, fixer.count_polya_exons, exons, pa)
        # an exon that ends at or before the tail position is never removed
        kept = [e[1] <= pa for e in exons]
        g.check(IMPLIES(pa != -1, a <= SUM([ITE(k, 0, 1) for k in kept])), "count_polya_exons only counts exons reaching beyond the tail")
        g.check(IMPLIES(pa == -1, a == 0), "no polyA -> nothing removed")
        t = call(g, fixer.count_polyt_exons, exons, pt)
        keptt = [e[0] >= pt for e in exons]
        g.check(IMPLIES(pt != -1, t <= SUM([ITE(k, 0, 1) for k in keptt])), "count_polyt_exons only counts exons reaching before the head")
        g.check(IMPLIES(pt == -1, t == 0), "no polyT -> nothing removed")
    return fn


# ------------------------------------------------------------------------------ instances
def instances(tier, seed):
    q = tier == "quick"
    L = 5 if q else 7
    out = []
    F = ["src.common:get_read_blocks", "src.common:correct_bam_coords"]
    pre = 1 if q else 2
    for first in itertools.product(OPS, repeat=pre):
        out.append(Instance("cigar[%s*<=%d]" % ("".join("MIDNSHP=X"[o] for o in first), L), run=run_cigar_group(first, L),
                            funcs=F, bounds="all operator strings over {M,=,X,I,D,N,S,H} with SAM-valid clipping, length <= %d; "
                            "all lengths and reference_start symbolic" % L, kind="symx-batch", budget_s=3600, weight=100))
    if not q:
        out.append(Instance("cigar[len1]", run=run_cigar_group((), 1), funcs=F, bounds="length 1", kind="symx-batch"))
    LM = 4 if q else 5
    for first in itertools.product(OPS, repeat=1):
        out.append(Instance("move_ref[%s*<=%d]" % ("MIDNSHP=X"[first[0]], LM), run=run_move_group(first, LM),
                            funcs=["src.polya_finder:move_ref_coord_alogn_alignment"],
                            bounds="operator strings of length <= %d, lengths and shift symbolic, both directions" % LM,
                            kind="symx-batch", budget_s=3600, weight=50))
    for n in ((1, 2, 3) if q else (1, 2, 3, 4, 5)):
        out.append(Instance("trim[%d]" % n, h_trim(n),
                            ["src.alignment_info:AlignmentInfo.add_polya_info", "src.polya_verification:PolyAFixer.correct_read_info",
                             "src.polya_verification:PolyAFixer.count_polya_exons", "src.polya_verification:PolyAFixer.count_polyt_exons",
                             "src.polya_verification:shift_polya", "src.polya_verification:shift_polyt"],
                            "%d exons, all coordinates and 4 tail positions symbolic" % n, weight=n ** 4, budget_s=1800))
        out.append(Instance("counts[%d]" % n, h_counts(n),
                            ["src.polya_verification:PolyAFixer.correct_read_info", "src.polya_verification:PolyAFixer.count_polya_exons",
                             "src.polya_verification:PolyAFixer.count_polyt_exons"],
                            "%d exons" % n, weight=n ** 3, budget_s=900))
    return out
