"""C12 - equivalent representations of the same input give identical results (claimed part: position-ordered
merge of several BAM iterators; decision logic of the converted-annotation cache)."""
import json as _json
import os as _os

import src.alignment_processor as ap
import src.gtf2db as gtf2db

from vlib import shims
from vlib.runner import Instance
from vlib.spec import AND, OR, NOT, ITE, IMPLIES, IFF, SUM, call, lex_le

PROPERTY = "C12"
EXPLANATION = ("(a) The real BAMOnlineMerger merges k fake BAM iterators whose records have symbolic sorted (start, end); the PARTITION of "
               "the records over the files is chosen by the solver; z3 proves that the merged stream is sorted by position, is a permutation "
               "of the union and carries the right file index for every partition. (b) The real find_converted_db / compare_stored_gtf / "
               "convert_db run against a fake os / json layer whose existence bits, modification times and stored cache entry are symbolic; "
               "z3 proves that a cached database is used only if it was recorded for this GTF path with equal GTF mtime, DB mtime and "
               "complete_genedb flag, and that a fresh conversion records exactly the current values.")
STUBS = ["pysam.AlignmentFile -> fake BAM with fetch() yielding its records in order", "src.gtf2db.os / open / json -> fakes with symbolic existence bits and mtimes",
         "the converter function -> stub that creates the database file (sets its existence bit and mtime)"]
ASSUMPTIONS = ["each BAM file is coordinate-sorted", "modification times are integers (comparison for equality only)"]
OUTSIDE = ["bgzipped references (opened by pyfaidx directly)", "that gffutils builds identical databases from .gtf, .gtf.gz and with/without inference (gffutils/sqlite: C extension and I/O - not encodable)",
           "GeneInfo extraction from a gffutils database"]


def setup_symbolic():
    shims.install([ap], ["min", "max"])
    from props import handoff, c05
    handoff.setup_symbolic()
    c05.setup_symbolic()


class Rec:
    def __init__(self, i, s, e):
        self.i, self.reference_start, self.reference_end, self.is_unmapped = i, s, e, False

    def __lt__(self, o):
        return self.i < o.i


class FakeBam:
    def __init__(self, recs):
        self.recs = recs

    def fetch(self, chr_id, start, end, multiple_iterators=False):
        return iter(self.recs)


def h_merger(n, k):
    def fn(g):
        recs = []
        prev = None
        for i in range(n):
            s = g.int("start%d" % i, 0)
            e = g.int("end%d" % i, 1)
            g.add(s < e)
            if prev is not None:
                g.add(lex_le(prev, (s, e)))          # the union is listed in (start, end) order; each file keeps that order
            prev = (s, e)
            recs.append(Rec(i, s, e))
        owner = [g.choice("file_of_record%d" % i, k) for i in range(n)]
        files = [[r for r, o in zip(recs, owner) if o == f] for f in range(k)]
        pairs = [(FakeBam(fl), "f%d.bam" % f) for f, fl in enumerate(files)]
        m = call(g, ap.BAMOnlineMerger, pairs, "chr1", 0, 10 ** 9)
        out = list(call(g, lambda: list(m.get())))
        g.check(sorted(r.i for _, r in out) == list(range(n)), "the merged stream is a permutation of the union of the files")
        g.check(all(owner[r.i] == idx for idx, r in out), "every record carries the index of the file it came from")
        g.check(AND([lex_le((out[j][1].reference_start, out[j][1].reference_end), (out[j + 1][1].reference_start, out[j + 1][1].reference_end))
                     for j in range(len(out) - 1)] or [True]), "the merged stream is sorted by (start, end) for every partition of the records")
    return fn


class FakeOS:
    def __init__(self, exists, mtime):
        self.path = self
        self._exists, self._mtime = exists, mtime

    def exists(self, p):
        return self._exists[p]

    def getmtime(self, p):
        return self._mtime[p]

    def abspath(self, p):
        return p


def h_cache(g):
    GTF, DB, OTHER = "/a/x.gtf", "/c/x.db", "/a/other.gtf"
    ex = {GTF: g.bool("gtf_exists"), DB: g.bool("db_exists"), OTHER: True, None: False}
    mt = {GTF: g.int("gtf_mtime_now", 0), DB: g.int("db_mtime_now", 0), OTHER: g.int("other_mtime_now", 0)}
    stored_gtf, stored_db = g.int("gtf_mtime_recorded", 0), g.int("db_mtime_recorded", 0)
    stored_complete = bool(g.bool("recorded_complete_flag"))
    want_complete = bool(g.bool("requested_complete_flag"))
    has_entry = bool(g.bool("cache_has_entry_for_this_gtf"))
    table = {OTHER: {"genedb": "/c/other.db", "gtf_mtime": mt[OTHER], "db_mtime": 5, "complete_db": want_complete}}
    if has_entry:
        table[GTF] = {"genedb": DB, "gtf_mtime": stored_gtf, "db_mtime": stored_db, "complete_db": stored_complete}
    old = gtf2db.os
    gtf2db.os = FakeOS(ex, mt)
    try:
        r = call(g, gtf2db.find_converted_db, table, GTF, want_complete)
        ok = AND(ex[GTF], ex[DB], mt[GTF] == stored_gtf, mt[DB] == stored_db) if has_entry else False
        fresh = ok and stored_complete == want_complete if isinstance(ok, bool) else AND(ok, stored_complete == want_complete)
        g.check(ITE_b(fresh, r == DB, r is None),
                "a cached database is used iff it was recorded for this GTF path with equal GTF mtime, DB mtime and complete_genedb flag")
        c = call(g, gtf2db.compare_stored_gtf, table, GTF, DB)
        g.check(IFF(c, ok), "compare_stored_gtf: recorded pair still has the recorded modification times")
        # the database -> GTF direction (a pre-built .db is given): a recorded GTF may be reused only for the database it was made from
        DB2 = "/d/copy_of_another.db"
        ex[DB2], mt[DB2] = True, g.int("other_db_mtime_now", 0)
        c2 = call(g, gtf2db.compare_stored_gtf, table, GTF, DB2)
        g.check(NOT(c2), "a GTF recorded for one database is not handed out for a different database file (even with equal modification times)",
                detail={"recorded_for": DB, "asked_for": DB2})
    finally:
        gtf2db.os = old


def ITE_b(c, a, b):
    return AND(IMPLIES(c, a), IMPLIES(NOT(c), b))


class FakeFile:
    def __init__(self, store, name, mode):
        self.store, self.name, self.mode = store, name, mode

    def __enter__(self):
        return self

    def __exit__(self, *a):
        return False


class FakeJson:
    def __init__(self, store):
        self.store = store

    def load(self, f):
        return dict(self.store[f.name])

    def dump(self, obj, f):
        self.store[f.name] = dict(obj)


def h_convert(g):
    """convert_db: after a conversion the recorded entry equals the current state, so the next look-up for the same GTF
    hits it and a look-up with a different flag or a touched file does not"""
    GTF, DB, CFG = "/a/x.gtf", "/c/x.db", "/h/db_config.json"
    ex = {GTF: True, DB: g.bool("db_exists_before"), None: False}
    mt = {GTF: g.int("gtf_mtime", 0), DB: g.int("db_mtime_before", 0)}
    new_db_mtime = g.int("db_mtime_after_conversion", 0)
    flag = bool(g.bool("complete_genedb"))
    store = {CFG: {}}
    converted = []

    def converter(gtf, db, complete, check):
        converted.append((gtf, db, complete))
        ex[db] = True
        mt[db] = new_db_mtime
    old = (gtf2db.os, gtf2db.__dict__.get("open"), gtf2db.json, gtf2db.gtf2db, gtf2db.__dict__.get("dump_json_atomically"))
    gtf2db.os = FakeOS(ex, mt)
    gtf2db.open = lambda name, mode="r": FakeFile(store, name, mode)
    gtf2db.json = FakeJson(store)
    gtf2db.gtf2db = converter
    if old[4] is not None:
        # how the cache file is published (temporary file + rename) is the subject of C20; here: its content
        gtf2db.dump_json_atomically = lambda obj, name: store.__setitem__(name, dict(obj))
    try:
        args = type("A", (), {"db_config_path": CFG, "clean_start": False, "complete_genedb": flag, "gtf_check": False})()
        r1 = call(g, gtf2db.convert_db, GTF, DB, converter, args)
        g.check(len(converted) == 1 and r1 == (GTF, DB), "an annotation without a cache entry is converted")
        r2 = call(g, gtf2db.convert_db, GTF, DB, converter, args)
        g.check(len(converted) == 1 and r2 == (GTF, DB), "the second run with the same input reuses the conversion")
        original = mt[GTF]
        touched = g.int("gtf_mtime_later", 0)
        mt[GTF] = touched
        call(g, gtf2db.convert_db, GTF, DB, converter, args)
        g.check(IFF(touched != original, len(converted) == 2), "a GTF whose modification time changed is converted again, an untouched one is not")
        args2 = type("A", (), {"db_config_path": CFG, "clean_start": False, "complete_genedb": not flag, "gtf_check": False})()
        n_before = len(converted)
        call(g, gtf2db.convert_db, GTF, DB, converter, args2)
        g.check(len(converted) == n_before + 1, "a different --complete_genedb setting never reuses the cached conversion")
    finally:
        gtf2db.os, gtf2db.json, gtf2db.gtf2db = old[0], old[2], old[3]
        if old[4] is not None:
            gtf2db.dump_json_atomically = old[4]
        if old[1] is None:
            del gtf2db.open
        else:
            gtf2db.open = old[1]


def h_gz_reference(g):
    """DatasetProcessor.__init__ with an ordinary-gzip reference (pyfaidx refuses it): the unpacked copy in the output
    folder is rewritten from the archive on every run that is not a --resume of an existing copy, so a leftover copy of
    another archive with the same name is never used"""
    import src.dataset_processor as dp
    ARCH, COPY = "/in/genome.fa.gz", "/out/genome.fa"
    exists_copy = g.bool("unpacked_copy_exists")
    resume = bool(g.bool("resume"))
    mt = {ARCH: g.int("archive_mtime", 0), COPY: g.int("copy_mtime", 0), ARCH + ".fai": 0}
    ex = {COPY: exists_copy, ARCH + ".fai": True, "/in": True}
    written = []

    class FOS(FakeOS):
        W_OK = 2

        def dirname(self, p): return _os.path.dirname(p)
        def basename(self, p): return _os.path.basename(p)
        def splitext(self, p): return _os.path.splitext(p)
        def join(self, *a): return _os.path.join(*a)
        def access(self, p, m): return True
        def exists(self, p): return self._exists.get(p, False)

    def fasta(path, indexname=None):
        if path.endswith(".gz"):
            raise dp.UnsupportedCompressionFormat("ordinary gzip")
        return {"opened": path}
    old = (dp.os, dp.Fasta, dp.__dict__.get("open"), dp.gzip, dp.shutil, dp.gffutils)
    dp.os = FOS(ex, mt)
    dp.Fasta = fasta
    dp.open = lambda name, mode="r": FakeFile({}, name, mode)
    dp.gzip = type("G", (), {"open": staticmethod(lambda name, mode="rt": "archive-content")})
    dp.shutil = type("S", (), {"copyfileobj": staticmethod(lambda src, dst: written.append(dst.name))})
    try:
        args = type("A", (), {})()
        args.genedb, args.needs_reference, args.reference, args.output, args.resume = None, True, ARCH, "/out", resume
        args._cmd_line, args._version, args.keep_tmp = "x", "v", True
        p_ = dp.DatasetProcessor.__new__(dp.DatasetProcessor)
        call(g, p_.__init__, args)
    finally:
        dp.os, dp.Fasta, dp.gzip, dp.shutil, dp.gffutils = old[0], old[1], old[3], old[4], old[5]
        if old[2] is None:
            dp.__dict__.pop("open", None)
        else:
            dp.open = old[2]
    g.check(IFF(len(written) == 1, NOT(AND(resume, exists_copy))),
            "the unpacked reference is rewritten from the given archive unless this is a --resume with an existing copy",
            detail={"rewritten": len(written), "resume": resume})
    g.check(args.reference == COPY and p_.reference_record_dict == {"opened": COPY}, "the run continues with the unpacked copy")


def instances(tier, seed):
    q = tier == "quick"
    A = "src.alignment_processor:"
    out = []
    for n, k in ([(2, 2), (3, 2), (3, 3)] if q else [(2, 2), (3, 2), (3, 3), (4, 2), (4, 3)]):
        out.append(Instance("merger[records=%d,files=%d]" % (n, k), h_merger(n, k), [A + "BAMOnlineMerger.__init__", A + "BAMOnlineMerger._set", A + "BAMOnlineMerger.get",
                                                                                    A + "make_alignment_tuple"],
                            "%d records with symbolic positions, every partition over %d files" % (n, k), weight=k ** n * 5, budget_s=1200))
    # alignments split over several BAM files of one experiment: the hand-off of read collection (shared harness of C08/C09)
    from props import handoff
    out.append(Instance("split_bam_handoff[files=2]", handoff.h_handoff(1, ("NA",), 2), ["src.dataset_processor:DatasetProcessor.collect_reads"],
                        "one experiment with two BAM files, symbolic unmapped-read counts per file, both memory modes", weight=20))
    from props import c05
    out.append(Instance("split_bam_regions[n=2,files=2]", c05.h_split(2, 6, 14, False, 2), c05.instances(tier, seed)[0].funcs,
                        "2 alignments spread over 2 BAM files by the solver (a file may have none), scaled constants, both memory modes", weight=100, budget_s=1200))
    out.append(Instance("cache_lookup", h_cache, ["src.gtf2db:find_converted_db", "src.gtf2db:compare_stored_gtf"],
                        "symbolic existence bits, current and recorded modification times, flags", weight=20))
    out.append(Instance("gz_reference", h_gz_reference, ["src.dataset_processor:DatasetProcessor.__init__"],
                        "symbolic existence / modification times of the unpacked copy, resume flag", weight=10))
    out.append(Instance("cache_update", h_convert, ["src.gtf2db:convert_db", "src.gtf2db:find_converted_db"],
                        "conversion -> reuse -> touched input -> other flag, symbolic modification times", weight=20))
    return out
