"""Drives the real collect_reads_in_parallel with fakes for the heavy collaborators and a recording / crashing
file layer.  Used in-process (record the event trace) and as a script (replay: crash at event k, then resume):

    python -m props.c07_driver run    <dir> <crash_at|-1>   -> runs the stage, os._exit(9) at file event <crash_at>
    python -m props.c07_driver resume <dir>                 -> runs the stage again with --resume, prints a JSON summary
"""
import builtins
import json
import os
import sys

import src.dataset_processor as dp
import src.assignment_io as assignment_io
import src.stats as stats
import src.isoform_assignment as ia
from src.gene_info import GeneInfo
from src.polya_finder import PolyAInfo

N_READS = 3


class Obj:
    def __init__(self, **kw):
        self.__dict__.update(kw)


class RecFile:
    """wraps a real file object; records write / flush / close events of the watched directory"""
    def __init__(self, layer, f, path, hid):
        self._l, self._f, self._p, self._h = layer, f, path, hid

    def write(self, b):
        self._l.event("write", self._p, self._h)
        return self._f.write(b)

    def flush(self):
        self._l.event("flush", self._p, self._h)
        return self._f.flush()

    def close(self):
        if not self._f.closed:
            self._l.event("close", self._p, self._h)
        return self._f.close()

    def __del__(self):
        # CPython closes an unreferenced file object at once: that is a durability event too
        try:
            self.close()
        except Exception:  # noqa
            pass

    def __enter__(self):
        return self

    def __exit__(self, *a):
        self.close()
        return False

    def __iter__(self):
        return iter(self._f)

    def __getattr__(self, n):
        return getattr(self._f, n)


class Layer:
    def __init__(self, watch_dir, crash_at=-1):
        self.dir, self.crash_at, self.events = watch_dir, crash_at, []

    def event(self, kind, path, hid=None):
        if not str(path).startswith(self.dir):
            return
        if self.crash_at == len(self.events):
            os._exit(9)          # the process is killed: user-space buffers are lost
        self.events.append((kind, os.path.basename(str(path)), hid))

    def open(self, path, mode="r", *a, **k):
        f = builtins.open(path, mode, *a, **k)
        if str(path).startswith(self.dir) and any(c in mode for c in "wa+"):
            self.handles = getattr(self, "handles", 0) + 1
            self.event("open", path, self.handles)
            return RecFile(self, f, path, self.handles)
        return f


READ_IDS = None          # ids of the reads the fake collector yields (default: N_READS distinct ones)


class FakeCollector:
    def __init__(self, chr_id, *a, **k):
        self.alignment_stat_counter = stats.EnumStats()
        self.chr_id = chr_id

    def process(self):
        gi = GeneInfo.from_region(self.chr_id, 1, 1000)
        reads = []
        ids = READ_IDS if READ_IDS is not None else ["read_%d" % i for i in range(N_READS)]
        for i in range(len(ids)):
            ra = ia.ReadAssignment(ids[i], ia.ReadAssignmentType.intergenic, ia.IsoformMatch(ia.MatchClassification.intergenic))
            ra.exons = [(10 + i, 90 + i)]
            ra.corrected_exons = list(ra.exons)
            ra.polya_info = PolyAInfo(-1, -1, -1, -1)
            ra.chr_id = self.chr_id
            ra.gene_info = gi
            reads.append(ra)
        yield gi, reads


def stage(work_dir, resume, layer, high_memory=False, full=False):
    saved = (dp.Fasta, dp.pysam, dp.AlignmentCollector, dp.__dict__.get("open"), assignment_io.__dict__.get("open"), stats.__dict__.get("open"))
    dp.Fasta = lambda *a, **k: {"chr1": "A" * 1000}
    dp.pysam = Obj(AlignmentFile=lambda *a, **k: Obj(close=lambda: None))
    dp.AlignmentCollector = lambda chr_id, *a, **k: FakeCollector(chr_id)
    dp.open = layer.open
    assignment_io.open = layer.open
    stats.open = layer.open
    try:
        sample = Obj(out_raw_file=os.path.join(work_dir, "smp.save"), file_list=[["x.bam"]], illumina_bam=None, readable_names_dict={})
        args = Obj(reference="ref.fa", fai_file_name=None, high_memory=high_memory, resume=resume, genedb=None, read_group=None)
        groups, stat, processed = dp.collect_reads_in_parallel(sample, "chr1", args)
        if full:
            return groups, processed
        return {"processed_reads": len(processed), "groups": sorted(groups)}
    finally:
        dp.Fasta, dp.pysam, dp.AlignmentCollector = saved[0], saved[1], saved[2]
        for mod, old in ((dp, saved[3]), (assignment_io, saved[4]), (stats, saved[5])):
            if old is None:
                mod.__dict__.pop("open", None)
            else:
                mod.open = old


class FakeAssignmentLoader:
    """ReadAssignmentLoader of the second stage: one locus with N_READS intergenic reads"""
    def __init__(self, *a, **k):
        self.left = 1

    def has_next(self):
        return self.left > 0

    def get_next(self):
        self.left -= 1
        gi = GeneInfo.from_region("chr1", 1, 1000)
        reads = []
        for i in range(N_READS):
            ra = ia.ReadAssignment("read_%d" % i, ia.ReadAssignmentType.intergenic, ia.IsoformMatch(ia.MatchClassification.intergenic))
            ra.exons = [(10 + i, 90 + i)]
            ra.corrected_exons = list(ra.exons)
            ra.polya_info = PolyAInfo(-1, -1, -1, -1)
            ra.chr_id, ra.gene_info, ra.mapped_strand = "chr1", gi, "+"
            reads.append(ra)
        return gi, reads


def stage2(work_dir, resume, layer):
    """the real construct_models_in_parallel for one chromosome (no annotation, no model construction): real
    ReadAssignmentAggregator / BEDPrinter / EnumStats; loader, Fasta replaced by fakes"""
    import src.serialization as ser
    import src.transcript_printer as tp
    import src.long_read_counter as lrc
    saved = (dp.Fasta, dp.ReadAssignmentLoader, dp.__dict__.get("open"), assignment_io.__dict__.get("open"), stats.__dict__.get("open"),
             lrc.__dict__.get("open"), tp.__dict__.get("open"))
    dump = os.path.join(work_dir, "smp.save")
    if not os.path.exists(dump + "_multimappers_chr1"):
        with builtins.open(dump + "_multimappers_chr1", "wb") as fh:
            ser.write_int(ser.TERMINATION_INT, fh)
    dp.Fasta = lambda *a, **k: {"chr1": "A" * 1000}
    dp.ReadAssignmentLoader = FakeAssignmentLoader
    for mod in (dp, assignment_io, stats, lrc, tp):
        mod.open = layer.open
    try:
        from src.input_data_storage import SampleData
        sample = SampleData([["x.bam"]], "smp_chr1", work_dir, {}, None)
        args = Obj(reference="ref.fa", fai_file_name=None, resume=resume, genedb=None, no_model_construction=True, check_canonical=False,
                   sqanti_output=False, _cmd_line="x", _version="v", counts_format="both", count_exons=False, read_group=None,
                   transcript_quantification="unique_only", gene_quantification="unique_only", gzipped=False)
        read_stat, tr_stat = dp.construct_models_in_parallel(sample, "chr1", dump, args, ["NA"])
        del read_stat, tr_stat
        import gc
        gc.collect()
        bed = sample.out_corrected_bed
        content = builtins.open(bed).read() if os.path.exists(bed) else None
        return {"bed_records": None if content is None else len([l for l in content.splitlines() if l and not l.startswith("#")])}
    finally:
        dp.Fasta, dp.ReadAssignmentLoader = saved[0], saved[1]
        for mod, old in ((dp, saved[2]), (assignment_io, saved[3]), (stats, saved[4]), (lrc, saved[5]), (tp, saved[6])):
            if old is None:
                mod.__dict__.pop("open", None)
            else:
                mod.open = old


class OsRec:
    """os proxy for src.file_utils: records removals of watched files"""
    def __init__(self, layer):
        self._l = layer
        self.path = os.path

    def remove(self, p):
        self._l.event("remove", p, 0)
        return os.remove(p)

    def __getattr__(self, n):
        return getattr(os, n)


def stage3(work_dir, resume, layer):
    """the real merge_files over two per-chromosome parts, called the way merge_assignments calls it"""
    import src.file_utils as fu
    label, chrs = "smp", ["chr1", "chr2"]
    merged = os.path.join(work_dir, "smp.corrected_reads.bed")
    if not resume:
        for c in chrs:
            with builtins.open(os.path.join(work_dir, "smp_%s.corrected_reads.bed" % c), "w") as fh:
                fh.write("#header\n%s\t1\t2\tread_%s\n" % (c, c))
    saved = (fu.os, fu.__dict__.get("open"))
    fu.os = OsRec(layer)
    fu.open = layer.open
    try:
        handler = layer.open(merged, "w")
        fu.merge_files(merged, label, chrs, handler, copy_header=False)
        handler.close()
        content = builtins.open(merged).read()
        return {"merged_records": sorted(l.split("\t")[0] for l in content.splitlines() if l and not l.startswith("#"))}
    finally:
        fu.os = saved[0]
        if saved[1] is None:
            fu.__dict__.pop("open", None)
        else:
            fu.open = saved[1]


def stage4(work_dir, resume, layer):
    """the real DatasetProcessor.collect_reads (sample level): info file, then the sample lock; resuming = the real
    collect_reads again followed by the real load_read_info"""
    import src.multimap_resolver as mr
    saved = (dp.collect_reads_in_parallel, dp.pysam, dp.__dict__.get("open"))
    dp.collect_reads_in_parallel = lambda sample, chr_id, args: ({"grpA", "NA"}, stats.EnumStats(), ["read_%d" % i for i in range(N_READS)])
    class Bam:
        """pysam.AlignmentFile as far as collect_reads uses it; the experiment's BAM holds 3 unmapped reads"""
        unmapped = 3

        def __init__(self, *a, **k):
            pass

        def close(self):
            pass

        def __enter__(self):
            return self

        def __exit__(self, *a):
            return False
    dp.pysam = Obj(AlignmentFile=Bam)
    dp.open = layer.open

    class Quick:
        def __init__(self, path):
            self.done = False

        def has_next(self):
            return not self.done

        def get_next(self):
            self.done = True
            for i in range(N_READS):
                yield Obj(read_id="read_%d" % i, polyA_found=(i == 0))
    saved_loader = dp.BasicReadAssignmentLoader
    dp.BasicReadAssignmentLoader = Quick
    try:
        this = dp.DatasetProcessor.__new__(dp.DatasetProcessor)
        this.args = Obj(threads=1, high_memory=False, resume=resume, multimap_strategy=mr.MultimapResolvingStrategy.take_best, keep_tmp=True,
                        gunzipped_reference=None)
        this.get_chr_list = lambda: ["chr1"]
        this.alignment_stat_counter = stats.EnumStats()
        sample = Obj(out_raw_file=os.path.join(work_dir, "smp.save"), file_list=[["x.bam"]])
        stale = [sample.out_raw_file + "_chr1" + sfx for sfx in ("_collected", "_processed")]
        if not resume:
            # per-chromosome locks left by an earlier, killed attempt in the same output folder
            for p_ in stale:
                builtins.open(p_, "w").close()
        this.collect_reads(sample)
        if not resume:
            STALE_LOCKS_LEFT[:] = [os.path.basename(p_) for p_ in stale if os.path.exists(p_)]
        total, polya, groups = this.load_read_info(sample.out_raw_file)
        return {"total_assignments": total, "polya": polya, "groups": sorted(groups),
                "unaligned_reads": this.alignment_stat_counter.stats_dict[dp.AlignmentType.unaligned]}
    finally:
        dp.collect_reads_in_parallel, dp.pysam = saved[0], saved[1]
        dp.BasicReadAssignmentLoader = saved_loader
        if saved[2] is None:
            dp.__dict__.pop("open", None)
        else:
            dp.open = saved[2]


STALE_LOCKS_LEFT = []


STAGES = {"collect": stage, "process": stage2, "merge": stage3, "sample": stage4}
LOCKS = {"collect": "_collected", "process": "_processed", "merge": None, "sample": ".save_lock"}


def main():
    mode, work_dir = sys.argv[1], sys.argv[2]
    stage_fn = STAGES[os.environ.get("C07_STAGE", "collect")]
    import logging
    logging.disable(logging.CRITICAL)
    if mode == "run":
        layer = Layer(work_dir, int(sys.argv[3]))
        out = stage_fn(work_dir, False, layer)
        print(json.dumps({"finished": True, "result": out, "events": len(layer.events)}))
    else:
        try:
            out = stage_fn(work_dir, True, Layer(work_dir))
            print(json.dumps({"ok": True, "result": out}))
        except BaseException as e:  # noqa
            print(json.dumps({"ok": False, "error": "%s: %s" % (type(e).__name__, str(e)[:120])}))


if __name__ == "__main__":
    main()
