"""C05 - every aligned read is accounted for; region splitting loses or duplicates none."""
import src.alignment_processor as ap
import src.multimap_resolver as mr
import src.common as common

from vlib import shims, symx
from vlib.runner import Instance
from vlib.spec import AND, OR, NOT, ITE, IMPLIES, IFF, SUM, call, count_true

PROPERTY = "C05"
EXPLANATION = ("The real AlignmentCollector.process grouping loop, forward_alignments, split_coverage_regions and both alignment "
               "storages (BAM re-fetch through BAMOnlineMerger on a fake BAM obeying pysam's fetch contract, and the in-memory "
               "index) run on n position-sorted alignments whose start/end are symbolic; the class constants are SCALED "
               "(COVERAGE_BIN=4, MAX_REGION_LEN=8, MIN_READS_TO_SPLIT=2) so that every branch of the splitting logic is reached "
               "with few alignments - the algorithm is parametric in them. z3 proves that each alignment is delivered to at least "
               "one processed region in both memory modes and that both modes deliver the same alignments.")
STUBS = ["pysam.AlignmentFile -> fake BAM: fetch(chr, start, end) yields the alignments with reference_start < end and reference_end > start, in order",
         "process_alignments_in_region -> returns the ids it is given (the per-read filters are straight-line code)",
         "src.alignment_processor range/min/max/int -> shims (bin indices are case-split)",
         "class constants scaled: COVERAGE_BIN 256->4, MAX_REGION_LEN 32768->8, MIN_READS_TO_SPLIT 1024->2"]
ASSUMPTIONS = ["alignments arrive sorted by reference_start (coordinate-sorted BAM), reference_end > reference_start",
               "coordinates inside a universe of UNIVERSE positions (bin indices must be case-split)"]
OUTSIDE = ["pysam's fetch itself", "the real constants with more than n alignments", "MAPQ/flag filters of process_genic/process_intergenic"]

UNIVERSE = 28


def setup_symbolic():
    shims.install([ap, common], ["range", "min", "max", "int"])
    shims.install([mr], ["min", "max"])
    from props import genic
    genic.setup_symbolic()


class Al:
    def __init__(self, i, s, e, sec=False, sup=False, unmapped=False):
        self.i = i
        self.reference_start = s
        self.reference_end = e
        self.is_secondary = sec
        self.is_supplementary = sup
        self.is_unmapped = unmapped          # a placed unmapped record (flag 4 with RNAME/POS): pysam gives reference_end None
        self.reference_id = 0
        self.query_name = "r%d" % i

    def __lt__(self, o):
        return self.i < o.i


class Obj_:
    def __init__(self, **kw):
        self.__dict__.update(kw)


class FakeBam:
    def __init__(self, als, length):
        self.als = als
        self.length = length

    def fetch(self, chr_id, start, end, multiple_iterators=False):
        for a in self.als:
            if a.is_unmapped:
                if start <= a.reference_start < end:      # placed unmapped records are returned at their position
                    yield a
            elif a.reference_start < end and a.reference_end > start:
                yield a

    def get_reference_length(self, chr_id):
        return self.length

    def get_index_statistics(self):
        # pysam: one IndexStats(contig, mapped, unmapped, total) per reference sequence, from the BAM index
        n_un = sum(1 for a in self.als if a.is_unmapped)
        return [Obj_(contig="chr1", mapped=len(self.als) - n_un, unmapped=n_un, total=len(self.als))]

    def count(self, *a, **k):
        return len(self.als)

    @property
    def mapped(self):
        return sum(1 for a in self.als if not a.is_unmapped)

    def reset(self):
        pass


class Scaled:
    def __enter__(self):
        self.saved = (ap.AbstractAlignmentStorage.COVERAGE_BIN, ap.AlignmentCollector.MAX_REGION_LEN, ap.AlignmentCollector.MIN_READS_TO_SPLIT)
        ap.AbstractAlignmentStorage.COVERAGE_BIN = 4
        ap.AlignmentCollector.MAX_REGION_LEN = 8
        ap.AlignmentCollector.MIN_READS_TO_SPLIT = 2

    def __exit__(self, *a):
        ap.AbstractAlignmentStorage.COVERAGE_BIN, ap.AlignmentCollector.MAX_REGION_LEN, ap.AlignmentCollector.MIN_READS_TO_SPLIT = self.saved
        return False


def run_collector(als, high_memory, owners=None, n_files=1):
    """owners: file index per alignment (alignments of one experiment split over several BAM files)"""
    if owners is None:
        bams = [FakeBam(als, UNIVERSE + 8)]
    else:
        bams = [FakeBam([a for a, o in zip(als, owners) if o == f], UNIVERSE + 8) for f in range(n_files)]
    bam = bams[0]
    col = ap.AlignmentCollector.__new__(ap.AlignmentCollector)
    col.chr_id = "chr1"
    col.bam_pairs = [(b, "f%d.bam" % i) for i, b in enumerate(bams)]
    col.params = type("P", (), {"high_memory": high_memory})()
    col.bam_merger = ap.BAMOnlineMerger(col.bam_pairs, "chr1", 0, bam.length, multiple_iterators=not high_memory)
    col.alignment_stat_counter = ap.EnumStats()
    delivered = []
    col.process_alignments_in_region = lambda region, it: (region, [a for _, a in it])
    for region, got in col.process():
        delivered.append((region, got))
    return col, delivered


def h_split(n, max_len, universe=UNIVERSE, with_unmapped=False, n_files=1):
    def fn(g):
        als = []
        prev = None
        for i in range(n):
            s = g.int("start%d" % i, 0, universe - 1)
            ln = g.int("length%d" % i, 1, max_len)
            if prev is not None:
                g.add(prev <= s)
            prev = s
            als.append(Al(i, s, s + ln, bool(g.bool("secondary%d" % i)) if i == 0 else False, False))
        mapped = list(als)
        if with_unmapped:
            # a placed unmapped record somewhere in the coordinate-sorted stream: it is no alignment, and it must not stop the run
            k_ = g.choice("unmapped_record_after", n + 1)
            pos_ = als[k_ - 1].reference_start if k_ else 0
            als = als[:k_] + [Al(n, pos_, None, False, False, True)] + als[k_:]
        owners = [g.choice("file_of_alignment%d" % i, n_files) for i in range(len(als))] if n_files > 1 else None
        with Scaled():
            res = {}
            for hm in (False, True):
                col, delivered = call(g, run_collector, als, hm, owners, n_files)
                res[hm] = delivered
                for a in mapped:
                    got = any(any(x is a for x in lst) for _, lst in delivered)
                    g.check(got, "every alignment is delivered to at least one processed region",
                            detail={"high_memory": hm, "alignment": a.i, "regions": [str(r) for r, _ in delivered]})
                for region, lst in delivered:
                    for a in lst:
                        if a.is_unmapped:
                            continue
                        g.check(AND(a.reference_start <= region[1], region[0] <= a.reference_end - 1),
                                "an alignment handed to a region overlaps it", detail={"high_memory": hm})
                    g.check(len({x.i for x in lst}) == len(lst), "no alignment is handed twice to the same region")
                n_sec = sum(1 for a in mapped if a.is_secondary)
                g.check(col.alignment_stat_counter.stats_dict[ap.AlignmentType.secondary] == n_sec and
                        col.alignment_stat_counter.stats_dict[ap.AlignmentType.primary] == n - n_sec,
                        "alignment statistics = per-category record counts")
            a, b = res[False], res[True]
            g.check(len(a) == len(b) and all(str(x[0]) == str(y[0]) for x, y in zip(a, b)), "both memory modes process the same regions")
            if len(a) == len(b):
                for (r1, l1), (r2, l2) in zip(a, b):
                    g.check(sorted(x.i for x in l1) == sorted(x.i for x in l2),
                            "--high_memory retrieval returns exactly what the BAM re-fetch returns", detail={"region": str(r1)})
    return fn


def h_split_regions_tile(n_bins):
    """split_coverage_regions on an arbitrary coverage profile: the sub-regions tile the whole region"""
    def fn(g):
        with Scaled():
            B = 4
            cov = [g.int("coverage_bin%d" % i, 1, 300) for i in range(n_bins)]
            first = g.int("region_start_offset", 0, B - 1)
            last = g.int("region_end_offset", 0, B - 1)
            region = (first, (n_bins - 1) * B + last)
            g.add(region[0] <= region[1])
            st = ap.InMemoryAlignmentStorage()
            st.region = region
            for i, c in enumerate(cov):
                st.coverage_dict[i] = c
            st.alignment_storage = [None] * 5
            regs = call(g, ap.AlignmentCollector.split_coverage_regions, region, st)
            ex = None
            g.check(len(regs) >= 1, "at least one sub-region", exclude=ex)
            if regs:
                g.check(regs[0][0] <= region[0] + 1, "the first sub-region starts at the region start", exclude=ex)
                g.check(regs[-1][1] == region[1], "the last sub-region ends at the region end", exclude=ex)
                g.check(AND([regs[i][1] + 1 >= regs[i + 1][0] for i in range(len(regs) - 1)] or [True]), "sub-regions leave no gap")
                g.check(AND([r[0] <= r[1] for r in regs]), "sub-regions are non-empty")
    return fn


def h_processed_multiplicity(n):
    """the real collect_reads_in_parallel of one chromosome (collector faked): the list of processed reads it hands to
    collect_reads carries every record once - a read seen in two sub-regions twice, since its multiplicity decides whether the
    duplicates are resolved; both memory modes and the --resume reload"""
    import shutil
    import tempfile
    from props import c07_driver

    def fn(g):
        ids = ["read_%s" % "AB"[g.choice("record%d_read" % i, 2)] for i in range(n)]
        hm = bool(g.bool("high_memory"))
        resume = bool(g.bool("reload_with_resume"))
        d = tempfile.mkdtemp(prefix="verif_c05_")
        old = c07_driver.READ_IDS
        c07_driver.READ_IDS = ids
        try:
            layer = c07_driver.Layer(d)
            groups, processed = call(g, c07_driver.stage, d, False, layer, hm, True)
            if resume and not hm:
                groups, processed = call(g, c07_driver.stage, d, True, c07_driver.Layer(d), hm, True)
        finally:
            c07_driver.READ_IDS = old
            shutil.rmtree(d, ignore_errors=True)
        got = sorted((p if isinstance(p, str) else p.read_id) for p in processed)
        g.check(got == sorted(ids), "the processed-read list of a chromosome has one entry per saved record (with multiplicity)",
                detail={"records": ids, "handed_on": got, "high_memory": hm, "resume": resume})
    return fn


def instances(tier, seed):
    q = tier == "quick"
    A = "src.alignment_processor:"
    F = [A + "AlignmentCollector.process", A + "AlignmentCollector.forward_alignments", A + "AlignmentCollector.split_coverage_regions",
         A + "AbstractAlignmentStorage.add_alignment", A + "AbstractAlignmentStorage.alignment_is_not_adjacent",
         A + "BAMAlignmentStorage.get_alignments", A + "BAMOnlineMerger.get", A + "InMemoryAlignmentStorage.add_alignment",
         A + "InMemoryAlignmentStorage.fill_index", A + "InMemoryAlignmentStorage.get_alignments"]
    out = []
    for n, ml in ([(1, 6), (2, 6), (3, 5)] if q else [(1, 8), (2, 8), (3, 8), (4, 6)]):
        out.append(Instance("split[n=%d,len<=%d]" % (n, ml), h_split(n, ml), F,
                            "%d sorted alignments, start in [0,%d), length <= %d, scaled constants" % (n, UNIVERSE, ml), weight=100 ** n, budget_s=2400 if q else 7200))
    out.append(Instance("split_with_unmapped_record[n=2]", h_split(2, 6, 14, True), F,
                        "2 sorted alignments and one placed unmapped record at any position of the stream, scaled constants", weight=100 ** 2, budget_s=1200))
    if q:
        # three alignments chained over four bins (needs length 6): the smallest shape with a tail sub-region that ends inside a bin
        out.append(Instance("split[n=3,len<=6,start<14]", h_split(3, 6, 14), F,
                            "3 sorted alignments, start in [0,14), length <= 6, scaled constants", weight=100 ** 3, budget_s=2400))
    for nb in ((1, 2, 3, 4, 5, 6, 7) if q else (1, 2, 3, 4, 5, 6, 7, 8, 9)):
        out.append(Instance("tile[bins=%d]" % nb, h_split_regions_tile(nb), [A + "AlignmentCollector.split_coverage_regions"],
                            "%d coverage bins with symbolic coverage, symbolic region ends" % nb, weight=3 ** nb, budget_s=900))
    # the per-read filters: one BAM record through the real process_genic yields a record exactly when the documented filters pass
    from props import genic
    for locus, tid, n in ([("skip", "T1", 3), ("antisense", "T7", 3)] if q else [(l, m[0], len(m[3])) for l in sorted(genic.LOCI) for m in genic.LOCI[l] if len(m[3]) > 1]):
        out.append(Instance("genic_record[%s,%s]" % (locus, tid), genic.h_genic(locus, tid, 0, n - 1),
                            [A + "AlignmentCollector.process_genic", "src.alignment_info:AlignmentInfo.__init__", "src.common:get_read_blocks"],
                            "one BAM record following %s of locus %s (symbolic ends, flags, MAPQ, --no_secondary, --min_mapq) through process_genic" % (tid, locus),
                            weight=300, budget_s=1200))
    out.append(Instance("processed_read_multiplicity", h_processed_multiplicity(3), ["src.dataset_processor:collect_reads_in_parallel",
                                                                                       "src.dataset_processor:collect_assignment_info",
                                                                                       "src.dataset_processor:load_assignment_info"],
                        "3 records of 1-2 reads on one chromosome, default / --high_memory / --resume reload", weight=20))
    from props import c08
    # ... and the verdicts reach both saved copies of such a read when the chromosome is loaded again (shared with C08)
    for n in ((2,) if q else (2, 3)):
        out.append(Instance("loader[n=%d]" % n, c08.h_loader(n), ["src.dataset_processor:ReadAssignmentLoader.get_next"],
                            "%d saved alignments of one read, arbitrary verdict list" % n, weight=5 ** n))
    # a read processed in several sub-regions yields identical records: exactly one survives (shared with C08)
    for n in ((3,) if q else (3, 4)):
        out.append(Instance("dedup[n=%d]" % n, c08.h_resolve(n, 1, False), ["src.multimap_resolver:MultimapResolver.find_duplicates",
                                                                      "src.multimap_resolver:MultimapResolver.filter_assignments"],
                            "%d records of one read, identical records allowed (same isoform set)" % n, weight=500, budget_s=1200))
    return out
