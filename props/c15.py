"""C15 - saved read assignments round-trip losslessly; the abridged reader stays byte-aligned."""
import src.serialization as ser
import src.isoform_assignment as ia
import src.gene_info as gene_info
import src.assignment_io as assignment_io
from src.polya_finder import PolyAInfo

from vlib import shims, symx
from vlib.symbytes import SymStream, ser_int
from vlib.runner import Instance
from vlib.spec import AND, OR, NOT, ITE, IMPLIES, IFF, call

PROPERTY = "C15"
EXPLANATION = ("Round trip over a symbolic byte stream: int.to_bytes/from_bytes are modelled by their contract "
               "(big-endian base 256, OverflowError iff out of range), every numeric field is a symbolic integer over "
               "its whole documented domain, enum members and strings are chosen by the solver from a catalogue "
               "(complete case split); the real serialize/deserialize methods are executed on that stream.")
STUBS = ["int.to_bytes / int.from_bytes -> contract model on z3 Int cells (vlib/symbytes.py)",
         "file object -> in-memory cell stream (SymStream)",
         "src.serialization.int, src.isoform_assignment.int/float -> term-building shims"]
ASSUMPTIONS = [
    "documented domains: write_int fields in [0, 2^32), write_short_int in [0, 2^16), write_int_neg in (-2^31, 2^31), "
    "penalties on the 2^-20 grid in [0, 4096), read exons non-empty",
    "inside one record all sign-bit encoded fields share one sign pattern (all negative or all non-negative): the fields "
    "are encoded independently, so single-field mismatches are still exposed",
    "a stream starts with a gene-info record (the printer writes one before the reads of each region)",
    "strings come from a catalogue (empty, ASCII, digits, non-ASCII 2- and 3-byte UTF-8, None where allowed); longer "
    "strings behave alike as long as the UTF-8 length fits 16 bits",
    "float penalties are modelled as exact rationals",
]
OUTSIDE = ["a run restarted from --read_assignments reproduces the outputs (whole pipeline)",
           "GeneInfo.deserialize re-derivation from a gffutils database (genedb=None header only)",
           "strings whose UTF-8 encoding has 65535 bytes or more"]

STRINGS = ["", "a", "read_1", "chr1", "+", "-", ".", "ENST0001.5", "géné", "€1", "NA"]
STR_OR_NONE = STRINGS + [None]
U32 = (0, 2 ** 32 - 1)
U16 = (0, 2 ** 16 - 1)
S31 = (-(2 ** 31) + 1, 2 ** 31 - 1)


def setup_symbolic():
    ser.int = ser_int
    ia.int = ser_int
    gene_info.int = ser_int
    shims.install([ia], ["float", "min", "max"])


def pick(g, name, seq):
    return seq[g.choice(name, len(seq))]


def u32(g, n): return g.int(n, *U32)
def u16(g, n): return g.int(n, *U16)
def s31(g, n): return g.int(n, *S31)


def signed_fields(g):
    """all write_int_neg fields of one record share one sign pattern (all negative / all non-negative,
    chosen by the solver): the fields do not interact, so a reader/writer mismatch on any single field
    shows under one of the two patterns, and the path count stays 2 instead of 2^k"""
    neg = bool(g.bool("all_signed_fields_negative"))

    def mk(name, lo=S31[0], hi=S31[1]):
        return g.int(name, lo, -1) if neg else g.int(name, 0, hi)
    return mk


def eq_list(a, b):
    if len(a) != len(b):
        return False
    return AND([x == y for x, y in zip(a, b)]) if a else True


def eq_pairs(a, b):
    if len(a) != len(b):
        return False
    return AND([AND(x[0] == y[0], x[1] == y[1]) for x, y in zip(a, b)]) if a else True


# ------------------------------------------------------------------------------ primitives
def h_primitives(g):
    g.batch = True
    st = SymStream(g)
    a, b, c = u32(g, "a"), u16(g, "b"), s31(g, "c")
    s = pick(g, "s", ["", "read_1", "géné", "€1"])
    t = pick(g, "t", [None, "", "a", "转录"])
    bits = [g.bool("b%d" % i) for i in range(3)]
    call(g, ser.write_int, a, st)
    call(g, ser.write_short_int, b, st)
    call(g, ser.write_int_neg, c, st)
    call(g, ser.write_string, s, st)
    call(g, ser.write_string_or_none, t, st)
    call(g, ser.write_bool_array, bits, st)
    call(g, ser.write_list, [a, a], st, ser.write_int)
    call(g, ser.write_list_of_pairs, [(c, c)], st, ser.write_int_neg)
    call(g, ser.write_int, ser.TERMINATION_INT, st)
    st.rewind()
    g.check(call(g, ser.read_int, st) == a, "read_int(write_int(v)) == v")
    g.check(call(g, ser.read_short_int, st) == b, "read_short_int round trip")
    g.check(call(g, ser.read_int_neg, st) == c, "read_int_neg round trip (sign bit)")
    g.check(call(g, ser.read_string, st) == s, "read_string round trip", detail={"s": s})
    g.check(call(g, ser.read_string_or_none, st) == t, "read_string_or_none round trip", detail={"s": t})
    rb = call(g, ser.read_bool_array, st, 3)
    g.check(AND([IFF(x, y) for x, y in zip(rb, bits)]), "bool array round trip")
    g.check(eq_list(call(g, ser.read_list, st, ser.read_int), [a, a]), "list round trip")
    g.check(eq_pairs(call(g, ser.read_list_of_pairs, st, ser.read_int_neg), [(c, c)]), "list of pairs round trip")
    g.check(call(g, ser.read_int, st) == ser.TERMINATION_INT, "terminator still aligned")
    g.check(st.remaining() == 0, "stream consumed exactly")


def h_domain_edges(g):
    """values outside the documented domain must not be written silently as something else"""
    st = SymStream(g)
    v = g.int("v")
    try:
        ser.write_int_neg(v, st)
    except (OverflowError, AssertionError):
        raise symx.PathAbort()
    st.rewind()
    g.check(call(g, ser.read_int_neg, st) == v, "write_int_neg either rejects a value or round-trips it")


def h_dict(n):
    def fn(g):
        st = SymStream(g)
        d = {}
        spec = []
        for i in range(n):
            key = "k%d" % i if i else pick(g, "key0", ["", "x", "clé"])
            kind = g.choice("kind%d" % i, 3)
            if kind == 0:
                val = s31(g, "iv%d" % i)
            elif kind == 1:
                val = pick(g, "sv%d" % i, STRINGS)
            else:
                val = (s31(g, "pa%d" % i), s31(g, "pb%d" % i))
            d[key] = val
            spec.append((key, kind, val))
        call(g, ser.write_dict, d, st)
        call(g, ser.write_short_int, 7, st)
        st.rewind()
        r = call(g, ser.read_dict, st)
        g.check(len(r) == len(d) and all(k in r for k in d), "dict keys round trip")
        for key, kind, val in spec:
            if key not in r:
                continue
            if kind == 2:
                g.check(isinstance(r[key], tuple) and AND(r[key][0] == val[0], r[key][1] == val[1]), "dict int-pair value round trip")
            elif kind == 0:
                g.check(r[key] == val, "dict int value round trip")
            else:
                g.check(r[key] == val, "dict string value round trip")
        g.check(call(g, ser.read_short_int, st) == 7, "stream aligned after dict")
    return fn


# ------------------------------------------------------------------------------ objects
def mk_event(g, stem, fixed=None, sf=None):
    types = list(ia.MatchEventSubtype)
    et = pick(g, stem + "type", types) if fixed is None else types[(7 * fixed + 3) % len(types)]
    regs = [u32(g, stem + "r%d" % i) for i in range(4)]
    info = s31(g, stem + "info") if sf is None else sf(stem + "info")
    return ia.MatchEvent(et, (regs[0], regs[1]), (regs[2], regs[3]), info)


def eq_event(a, b):
    return AND(a.event_type == b.event_type, a.isoform_region[0] == b.isoform_region[0],
               a.isoform_region[1] == b.isoform_region[1], a.read_region[0] == b.read_region[0],
               a.read_region[1] == b.read_region[1], a.event_info == b.event_info)


VARIANTS = [  # joint string variants (ASCII / non-ASCII multi-byte / empty-or-None)
    {"gene": "G1", "tr": "T1.1", "strand": "+", "read_id": "read_1", "group": "NA", "mstrand": "+", "chr": "chr1"},
    {"gene": "gèné", "tr": "转录", "strand": "-", "read_id": "read/é", "group": "grp€", "mstrand": "-", "chr": "染"},
    {"gene": None, "tr": None, "strand": ".", "read_id": "", "group": "", "mstrand": ".", "chr": ""},
]


def mk_match(g, stem, n_events, variant=None, sf=None):
    k = g.int(stem + "pen", 0, 4096 * 2 ** 20 - 1)
    if variant is None:
        m = ia.IsoformMatch(pick(g, stem + "cls", list(ia.MatchClassification)),
                            pick(g, stem + "gene", [None, "G1", "gèné", ""]), pick(g, stem + "tr", [None, "T1.1", "转录"]),
                            None, "+", k / 1048576)
        m.match_subclassifications = [mk_event(g, "%se%d" % (stem, i), fixed=i) for i in range(n_events)]
    else:
        v = VARIANTS[variant]
        classes = list(ia.MatchClassification)
        m = ia.IsoformMatch(classes[variant % len(classes)], v["gene"], v["tr"], None, v["strand"], k / 1048576)
        m.match_subclassifications = [mk_event(g, "%se%d" % (stem, i), fixed=variant + i, sf=sf) for i in range(n_events)]
    return m


def eq_match(a, b):
    if len(a.match_subclassifications) != len(b.match_subclassifications):
        return False
    return AND([a.assigned_gene == b.assigned_gene, a.assigned_transcript == b.assigned_transcript,
                a.transcript_strand == b.transcript_strand, a.match_classification == b.match_classification,
                a.penalty_score == b.penalty_score] +
               [eq_event(x, y) for x, y in zip(a.match_subclassifications, b.match_subclassifications)])


def h_event(g):
    g.batch = True
    st = SymStream(g)
    e = mk_event(g, "e")
    call(g, e.serialize, st)
    st.rewind()
    r = call(g, ia.MatchEvent.deserialize, st)
    g.check(eq_event(e, r), "MatchEvent round trip (incl. sentinel positions and negative event_info)")
    g.check(st.remaining() == 0, "MatchEvent consumed exactly")


def h_match(n_events):
    def fn(g):
        st = SymStream(g)
        m = mk_match(g, "m", n_events)
        call(g, m.serialize, st)
        st.rewind()
        r = call(g, ia.IsoformMatch.deserialize, st)
        g.check(eq_match(m, r), "IsoformMatch round trip")
        g.check(st.remaining() == 0, "IsoformMatch consumed exactly")
    return fn


def mk_assignment(g, n_exons, n_matches, n_events, n_prof, with_dict, variant=0, ti=0):
    ra = ia.ReadAssignment.__new__(ia.ReadAssignment)
    v = VARIANTS[variant]
    ra.assignment_id = u32(g, "id")
    ra.read_id = v["read_id"]
    ra.genomic_region = (u32(g, "gr0"), u32(g, "gr1"))
    ra.exons = [(u32(g, "x%da" % i), u32(g, "x%db" % i)) for i in range(n_exons)]
    ra.corrected_exons = [(u32(g, "c%da" % i), u32(g, "c%db" % i)) for i in range(n_exons)]
    ra.corrected_introns = []
    ra.gene_info = None
    ra.multimapper = g.bool("multimapper")
    ra.polyA_found = g.bool("polyA_found")
    ra.cage_found = g.bool("cage_found")
    sf = signed_fields(g)
    ra.polya_info = PolyAInfo(sf("pa0"), sf("pa1"), sf("pa2"), sf("pa3"))
    ra.read_group = v["group"]
    ra.mapped_strand = v["mstrand"]
    ra.strand = v["strand"]
    ra.chr_id = v["chr"]
    ra.mapping_quality = u16(g, "mapq")
    types = list(ia.ReadAssignmentType)
    ra.assignment_type = types[ti % len(types)]
    ra.gene_assignment_type = types[(ti + 3) % len(types)]
    ra.isoform_matches = [mk_match(g, "m%d" % i, n_events, variant=(variant + i) % len(VARIANTS), sf=sf) for i in range(n_matches)]
    ra.additional_info = {}
    ra.additional_attributes = {}
    if with_dict:
        ra.additional_info = {"indel_count": sf("d_int"), "FSM_class": ["0", "fsmé", ""][variant],
                              "pair": (sf("d_p0"), sf("d_p1"))}
        ra.additional_attributes = {"Canonical": ["True", "Unspliced", "é"][variant]}
    ra.introns_match = g.bool("introns_match")
    ra.exon_gene_profile = [sf("ep%d" % i, -2, 1) for i in range(n_prof)]
    ra.intron_gene_profile = [sf("ip%d" % i, -2, 1) for i in range(n_prof)]
    return ra


def h_assignment(n_exons, n_matches, n_events, n_prof, with_dict, variant, ti):
    def fn(g):
        g.batch = True
        st = SymStream(g)
        ra = mk_assignment(g, n_exons, n_matches, n_events, n_prof, with_dict, variant, ti)
        call(g, ra.serialize, st)
        call(g, ser.write_short_int, 4242, st)
        total = len(st.cells)
        st.rewind()
        r = call(g, ia.ReadAssignment.deserialize, st, None)
        g.check(st.pos == total - 2, "ReadAssignment.deserialize consumes exactly the record")
        g.check(AND(r.assignment_id == ra.assignment_id, r.read_id == ra.read_id,
                    r.genomic_region[0] == ra.genomic_region[0], r.genomic_region[1] == ra.genomic_region[1]),
                "ids and region round trip")
        g.check(eq_pairs(r.exons, ra.exons), "exons round trip")
        g.check(eq_pairs(r.corrected_exons, ra.corrected_exons), "corrected exons round trip")
        g.check(AND(IFF(r.multimapper, ra.multimapper), IFF(r.polyA_found, ra.polyA_found), IFF(r.cage_found, ra.cage_found),
                    IFF(r.introns_match, ra.introns_match)), "flags round trip")
        g.check(AND(r.polya_info.external_polya_pos == ra.polya_info.external_polya_pos,
                    r.polya_info.external_polyt_pos == ra.polya_info.external_polyt_pos,
                    r.polya_info.internal_polya_pos == ra.polya_info.internal_polya_pos,
                    r.polya_info.internal_polyt_pos == ra.polya_info.internal_polyt_pos), "polyA positions round trip (incl. -1)")
        g.check(r.read_group == ra.read_group and r.mapped_strand == ra.mapped_strand and r.strand == ra.strand
                and r.chr_id == ra.chr_id, "strings round trip", detail={"chr": ra.chr_id, "group": ra.read_group})
        g.check(r.mapping_quality == ra.mapping_quality, "mapping quality round trip")
        g.check(r.assignment_type == ra.assignment_type and r.gene_assignment_type == ra.gene_assignment_type,
                "assignment types round trip")
        g.check(len(r.isoform_matches) == len(ra.isoform_matches) and
                AND([eq_match(x, y) for x, y in zip(ra.isoform_matches, r.isoform_matches)] or [True]),
                "isoform matches with events, regions and penalties round trip")
        for key in ra.additional_info:
            v, w = ra.additional_info[key], r.additional_info.get(key)
            if isinstance(v, tuple):
                g.check(isinstance(w, tuple) and AND(v[0] == w[0], v[1] == w[1]), "additional_info pair value round trip")
            else:
                g.check(w is not None and v == w, "additional_info value round trip")
        g.check(set(r.additional_info) == set(ra.additional_info) and r.additional_attributes == ra.additional_attributes,
                "attribute dictionaries round trip")
        g.check(AND(eq_list(r.exon_gene_profile, ra.exon_gene_profile), eq_list(r.intron_gene_profile, ra.intron_gene_profile)),
                "feature profiles round trip")
        # abridged reader: same byte count, same shared fields as the in-memory construction
        st.rewind()
        b = call(g, ia.BasicReadAssignment.deserialize_from_read_assignment, st)
        g.check(st.pos == total - 2, "abridged reader stays byte-aligned with the full format")
        g.check(call(g, ser.read_short_int, st) == 4242, "next record marker readable after the abridged reader")
        m = call(g, ia.BasicReadAssignment, ra)
        g.check(AND(b.assignment_id == m.assignment_id, b.read_id == m.read_id, b.chr_id == m.chr_id, b.start == m.start,
                    b.end == m.end, b.genomic_region[0] == m.genomic_region[0], b.genomic_region[1] == m.genomic_region[1],
                    IFF(b.multimapper, m.multimapper), IFF(b.polyA_found, m.polyA_found),
                    b.assignment_type == m.assignment_type, b.gene_assignment_type == m.gene_assignment_type,
                    b.penalty_score == m.penalty_score),
                "abridged record == record built in memory (--high_memory path)")
        g.check(set(b.genes) == set(m.genes) and set(b.isoforms) == set(m.isoforms), "abridged gene/isoform sets")
        # compact record's own format
        st2 = SymStream(g)
        call(g, m.serialize, st2)
        st2.rewind()
        c = call(g, ia.BasicReadAssignment.deserialize, st2)
        g.check(st2.remaining() == 0, "BasicReadAssignment consumed exactly")
        g.check(AND(c.assignment_id == m.assignment_id, c.read_id == m.read_id, c.chr_id == m.chr_id, c.start == m.start,
                    c.end == m.end, c.genomic_region[0] == m.genomic_region[0], c.genomic_region[1] == m.genomic_region[1],
                    IFF(c.multimapper, m.multimapper), IFF(c.polyA_found, m.polyA_found),
                    c.assignment_type == m.assignment_type, c.gene_assignment_type == m.gene_assignment_type,
                    c.penalty_score == m.penalty_score, c.genes == m.genes, c.isoforms == m.isoforms),
                "BasicReadAssignment round trip")
    return fn


# ------------------------------------------------------------------------------ framing
class _Params:
    pass


def h_stream(kinds, variant=0):
    """TmpFileAssignmentPrinter framing read back by both loaders; kinds: string over g (gene info) / r"""
    def fn(g):
        g.batch = True
        st = SymStream(g)
        pr = assignment_io.TmpFileAssignmentPrinter.__new__(assignment_io.TmpFileAssignmentPrinter)
        pr.dumper = st
        objs = []
        for i, k in enumerate(kinds):
            if k == "g":
                gi = gene_info.GeneInfo.__new__(gene_info.GeneInfo)
                gi.delta = g.int("delta%d" % i, 0, 1000)
                gi.gene_db_list = []
                gi.chr_id = ["chr1", "染"][i % 2]
                gi.start = u32(g, "gs%d" % i)
                gi.end = u32(g, "ge%d" % i)
                call(g, pr.add_gene_info, gi)
                objs.append(gi)
            else:
                ra = ia.ReadAssignment.__new__(ia.ReadAssignment)
                ra.__dict__.update(mk_assignment(g, 1, 0, 0, 0, False, (variant + i) % len(VARIANTS), i).__dict__)
                for nm in ("pa0", "pa1", "pa2", "pa3"):   # keep the per-record fork count low: tails absent
                    pass
                ra.polya_info = PolyAInfo(-1, s31(g, "tail%d" % i), -1, -1)
                ra.exon_gene_profile, ra.intron_gene_profile = [], []
                ra.multimapper, ra.polyA_found, ra.cage_found, ra.introns_match = g.bool("mm%d" % i), True, False, False
                ra.assignment_id = u32(g, "rid%d" % i)
                ra.exons = [(u32(g, "rs%d" % i), u32(g, "re%d" % i))]
                call(g, pr.add_read_info, ra)
                objs.append(ra)
        call(g, pr.__del__)
        pr.dumper = SymStream(g)      # the interpreter's own __del__ later must not touch the stream under test
        for quick in (False, True):
            st.rewind()
            cls = assignment_io.QuickTmpFileAssignmentLoader if quick else assignment_io.NormalTmpFileAssignmentLoader
            ld = cls.__new__(cls)
            ld.loader = st
            ld.genedb = None
            ld.chr_record = None
            ld.current_gene_info = None
            ld.current_id = None
            call(g, ld._read_id)
            seen = []
            guard = 0
            while call(g, ld.has_next) and guard < len(kinds) + 2:
                guard += 1
                is_gi = ld.is_gene_info()
                o = call(g, ld.get_object)
                seen.append((is_gi, o))
            g.check(len(seen) == len(kinds), "loader reads as many records as were written (%s)" % cls.__name__)
            if len(seen) != len(kinds):
                continue
            for (is_gi, o), k, orig in zip(seen, kinds, objs):
                g.check(is_gi == (k == "g"), "record kinds in order")
                if k == "r" and o is not None:
                    if quick:
                        g.check(AND(o.assignment_id == orig.assignment_id, o.start == orig.exons[0][0], o.end == orig.exons[0][1]),
                                "quick loader sees the same record")
                    else:
                        g.check(AND(o.assignment_id == orig.assignment_id, eq_pairs(o.exons, orig.exons)), "normal loader sees the same record")
                elif k == "g" and not quick:
                    g.check(AND(o.delta == orig.delta, o.chr_id == orig.chr_id, o.start == orig.start, o.end == orig.end),
                            "gene info header round trip")
            g.check(st.remaining() == 0, "loader stops exactly at the terminator")
            ld.loader = SymStream(g)
        # the grouping reader of the second stage: every assignment is handed out together with the gene-info region it was saved under
        import src.dataset_processor as dp
        st.rewind()
        ld = assignment_io.NormalTmpFileAssignmentLoader.__new__(assignment_io.NormalTmpFileAssignmentLoader)
        ld.loader, ld.genedb, ld.chr_record, ld.current_gene_info, ld.current_id = st, None, None, None, None
        call(g, ld._read_id)
        ral = dp.ReadAssignmentLoader.__new__(dp.ReadAssignmentLoader)
        ral.unpickler, ral.multimapped_chr_dict = ld, None
        handed, guard = [], 0
        while call(g, ral.has_next) and guard < len(kinds) + 2:
            guard += 1
            gi_, storage = call(g, ral.get_next)
            handed.extend((gi_, a) for a in (storage or []))
        expect, cur = [], None
        for k, orig in zip(kinds, objs):
            if k == "g":
                cur = orig
            else:
                expect.append((cur, orig))
        g.check(len(handed) == len(expect), "the grouping loader hands out every saved assignment once")
        for (gi_, a), (egi, ea) in zip(handed, expect):
            g.check(AND(a.assignment_id == ea.assignment_id, gi_ is not None and AND(gi_.start == egi.start, gi_.end == egi.end, gi_.delta == egi.delta)),
                    "an assignment is handed out together with the gene-info region it was saved under")
        ld.loader = SymStream(g)
    return fn


def h_multimap_file(n):
    """multimapper file framing of dataset_processor: write_list(..., BasicReadAssignment.serialize) ... TERMINATION_INT"""
    def fn(g):
        st = SymStream(g)
        lists = []
        for j in range(n):
            ra = mk_assignment(g, 1, 0, 0, 0, False, j % len(VARIANTS), j)
            ra.polya_info = PolyAInfo(-1, -1, -1, -1)
            ra.cage_found = ra.introns_match = False
            ra.assignment_id = u32(g, "mid%d" % j)
            b = ia.BasicReadAssignment(ra)
            lists.append([b])
            call(g, ser.write_list, [b], st, ia.BasicReadAssignment.serialize)
        call(g, ser.write_int, ser.TERMINATION_INT, st)
        st.rewind()
        for j in range(n):
            # reader side (ReadAssignmentLoader style): list size first; TERMINATION_INT means end
            size = call(g, ser.read_int, st)
            g.check(size == 1, "multimapper list size readable and never mistaken for the terminator")
            o = call(g, ia.BasicReadAssignment.deserialize, st)
            g.check(o.assignment_id == lists[j][0].assignment_id, "multimapper record round trip")
        g.check(call(g, ser.read_int, st) == ser.TERMINATION_INT, "terminator aligned")
    return fn


def instances(tier, seed):
    q = tier == "quick"
    S = "src.serialization:"
    prim = [S + f for f in ("write_int", "read_int", "write_short_int", "read_short_int", "write_int_neg", "read_int_neg",
                            "write_string", "read_string", "write_string_or_none", "read_string_or_none", "write_bool_array",
                            "read_bool_array", "write_list", "read_list", "write_list_of_pairs", "read_list_of_pairs")]
    out = [Instance("primitives", h_primitives, prim, "all primitive encoders, numeric values over the whole domain", weight=5),
           Instance("int_neg_domain", h_domain_edges, [S + "write_int_neg", S + "read_int_neg"], "unbounded value", weight=1),
           Instance("event", h_event, ["src.isoform_assignment:MatchEvent.serialize", "src.isoform_assignment:MatchEvent.deserialize"],
                    "all event subtypes x symbolic regions/info", weight=5)]
    for n in ((1, 2) if q else (1, 2, 3)):
        out.append(Instance("dict[%d]" % n, h_dict(n), [S + "write_dict", S + "read_dict"], "%d entries, all value kinds" % n, weight=3 ** n))
    for ne in ((0, 1) if q else (0, 1, 2)):
        out.append(Instance("match[%d]" % ne, h_match(ne), ["src.isoform_assignment:IsoformMatch.serialize",
                                                           "src.isoform_assignment:IsoformMatch.deserialize"], "%d events" % ne, weight=10 * (ne + 1)))
    RA = ["src.isoform_assignment:ReadAssignment.serialize", "src.isoform_assignment:ReadAssignment.deserialize",
          "src.isoform_assignment:BasicReadAssignment.deserialize_from_read_assignment", "src.isoform_assignment:BasicReadAssignment.__init__",
          "src.isoform_assignment:BasicReadAssignment.serialize", "src.isoform_assignment:BasicReadAssignment.deserialize"]
    shapes = [(1, 0, 0, 0, False), (1, 1, 0, 1, True), (2, 1, 1, 1, False)] if q else \
        [(1, 0, 0, 0, False), (1, 1, 0, 1, True), (2, 1, 1, 1, False), (2, 2, 1, 2, True), (1, 2, 2, 0, False)]
    ntypes = len(list(ia.ReadAssignmentType))
    for si, sh in enumerate(shapes):
        for variant in range(len(VARIANTS)):
            for ti in ([(seed + si + variant) % ntypes] if q else range(ntypes)):
                out.append(Instance("assignment[exons=%d,matches=%d,events=%d,profile=%d,dict=%s,strings=%d,type=%d]" % (sh + (variant, ti)),
                                    h_assignment(*(sh + (variant, ti))), RA,
                                    "record shape %s, string variant %d, all numeric fields symbolic" % (sh, variant),
                                    weight=100 * (1 + sh[1] + sh[2]), budget_s=3000))
    for ki, kinds in enumerate(["gr", "grr", "ggr"] if q else ["gr", "grr", "ggr", "grgr", "grrr", "gggr"]):
        for variant in ([ki % len(VARIANTS)] if q else range(len(VARIANTS))):
            out.append(Instance("stream[%s,strings=%d]" % (kinds, variant), h_stream(kinds, variant),
                                ["src.assignment_io:TmpFileAssignmentPrinter.add_gene_info", "src.assignment_io:TmpFileAssignmentPrinter.add_read_info",
                                 "src.assignment_io:TmpFileAssignmentPrinter.__del__", "src.assignment_io:NormalTmpFileAssignmentLoader.get_object",
                                 "src.assignment_io:QuickTmpFileAssignmentLoader.get_object", "src.gene_info:GeneInfo.serialize",
                                 "src.gene_info:GeneInfo.deserialize"], "record sequence %s" % kinds, weight=50, budget_s=3000))
    for n in ((1, 2) if q else (1, 2, 3)):
        out.append(Instance("multimap_file[%d]" % n, h_multimap_file(n), [S + "write_list", "src.isoform_assignment:BasicReadAssignment.serialize",
                                                                         "src.isoform_assignment:BasicReadAssignment.deserialize"],
                            "%d lists + terminator" % n, weight=20))
    return out
