"""C04 - novel transcripts are evidence-backed, correctly labelled and non-redundant."""
import itertools

import src.graph_based_model_construction as gbmc
import src.intron_graph as intron_graph
import src.common as common
from src.gene_info import TranscriptModel, TranscriptModelType
from src.graph_based_model_construction import StrandnessReportingLevel

from props import flblock, readfam
from props.flblock import Obj
from vlib import shims
from vlib.runner import Instance
from vlib.spec import AND, OR, NOT, ITE, IMPLIES, IFF, SUM, call

PROPERTY = "C04"
EXPLANATION = ("The real construct_fl_isoforms runs on a constructor state built directly: full-length paths over a pool of introns whose "
               "membership in the annotation (known_introns, owning gene), border dinucleotides, polyA/polyT terminal vertices, read "
               "counts (symbolic integers) and report level are chosen by the solver; z3 / the case split proves the labelling and "
               "evidence obligations for every emitted model. detect_similar_isoforms (the real assigner underneath) runs on pairs of "
               "novel models with identical intron chains and symbolic ends.")
STUBS = ["constructor state built directly (stub assigner answering whether the path reproduces a reference isoform, stub profile constructor)",
         "reference sequence built from solver-chosen dinucleotides"]
ASSUMPTIONS = ["paths are given as the path storage holds them (intron tuples between typed terminal vertices)",
               "detect_similar_isoforms: models of 3 exons with the same intron chain, ends within 200 bp"]
OUTSIDE = ["path threading through the intron graph (IntronPathProcessor) and the coverage-based transcript filters", "global coverage thresholds' adequacy",
           "pairwise novelty over the whole filter loop"]

INTRONS = [(11, 30), (41, 60), (71, 90)]
PAIRS = [("GT", "AG"), ("CT", "AC"), ("AA", "AA")]


def setup_symbolic():
    import src.gene_info as gene_info_mod
    readfam.setup_symbolic()
    # GeneInfo.from_models on models with symbolic ends: exon/intron sets as association lists
    gene_info_mod.set = shims.sym_set
    shims.install([gene_info_mod], ["min", "max"])


def h_labels(n):
    def fn(g):
        introns = INTRONS[:n]
        pairs = [PAIRS[g.choice("intron%d_sites" % i, len(PAIRS))] for i in range(n)]
        seq = flblock.make_sequence(introns, pairs, 100)
        known_mask = g.choice("annotated_intron_subset", 2 ** n)
        known = [introns[i] for i in range(n) if known_mask >> i & 1]
        has_ref_gene = bool(g.bool("introns_belong_to_reference_gene"))
        level = list(StrandnessReportingLevel)[g.choice("report_canonical_level", 4)]
        polyt, polya = bool(g.bool("path_starts_at_polyt")), bool(g.bool("path_ends_at_polya"))
        count = g.int("path_read_count", 0, 50)
        is_reference_chain = bool(g.bool("chain_equals_a_reference_isoform_in_graph"))
        c = flblock.make_constructor(seq, flblock.default_params(level.name), known_introns=known,
                                     reference_gene="G" if has_ref_gene else None,
                                     known_isoforms_in_graph={tuple(introns): "REF1"} if is_reference_chain else {})
        old = flblock.get_reported()
        old = set(old) if old is not flblock._MISSING else old
        reads = [Obj(read_id="r1", read_group="NA"), Obj(read_id="r2", read_group="NA")]
        flblock.add_path(c, introns, 1, 100, count, polyt=polyt, polya=polya, reads=reads)
        try:
            call(g, c.construct_fl_isoforms)
        finally:
            flblock.set_reported(old)
        det = {"introns_known": known, "pairs": pairs, "level": level.name, "polyt": polyt, "polya": polya}
        for m in c.transcript_model_storage:
            g.check(not is_reference_chain, "a novel model never repeats the intron chain of a reference transcript present in the graph", detail=det)
            all_known = len(known) == n
            g.check(m.transcript_id.endswith(common.TranscriptNaming.nic_transcript_suffix) == all_known and
                    m.transcript_id.endswith(common.TranscriptNaming.nnic_transcript_suffix) == (not all_known),
                    "suffix .nic exactly when all introns are annotated introns, .nnic otherwise", detail=dict(det, id=m.transcript_id))
            g.check(m.transcript_id.startswith(common.TranscriptNaming.transcript_prefix), "novel transcript id format")
            ref_gene_used = has_ref_gene and len(known) > 0
            if not ref_gene_used:
                g.check(m.gene_id.startswith(common.TranscriptNaming.novel_gene_prefix + "chr1_"), "without a reference gene the model belongs to a novel_gene_* gene",
                        detail=dict(det, gene=m.gene_id))
            g.check(count >= c.params.min_novel_count, "a reported novel model has the minimal read support")
            g.check(len(c.transcript_read_ids[m.transcript_id]) >= 1, "every reported model has at least one supporting read listed")
            g.check(all(x in introns for x in common.junctions_from_blocks(m.exon_blocks)) and len(m.exon_blocks) == n + 1,
                    "every intron of the model is an intron of the supporting path")
            if level in (StrandnessReportingLevel.only_canonical, StrandnessReportingLevel.only_stranded) and not ref_gene_used:
                g.check(m.strand in "+-", "under only_canonical / only_stranded every reported model carries a definite strand", detail=det)
        for tid in c.transcript_read_ids:
            g.check(any(m.transcript_id == tid for m in c.transcript_model_storage), "supporting reads reference only reported transcripts")
    return fn


def h_similar(preset, n_exons=3):
    """two novel models with the same intron chain (2 introns, or a single one) and symbolic ends: detect_similar_isoforms marks one of them"""
    def fn(g):
        params = readfam.matching_params(preset)
        introns = [(1201, 1999), (2151, 2999)] if n_exons == 3 else [(1201, 2999)]
        models = []
        for k in range(2):
            s = g.int("model%d_start" % k, 900, 1150)
            e = g.int("model%d_end" % k, 3050, 3300)
            ex = [(s, 1200), (2000, 2150), (3000, e)] if n_exons == 3 else [(s, 1200), (3000, e)]
            m = TranscriptModel("chr1", "+", "transcript%d.chr1.nnic" % (k + 1), "novel_gene_chr1_9", ex, TranscriptModelType.novel_not_in_catalog)
            m.intron_path = ((intron_graph.VERTEX_read_start, s),) + tuple(introns) + ((intron_graph.VERTEX_read_end, e),)
            m.intron_path = tuple(introns)
            models.append(m)
        c = gbmc.GraphBasedModelConstructor.__new__(gbmc.GraphBasedModelConstructor)
        c.params = params
        sub = call(g, c.detect_similar_isoforms, models)
        (s0, e0), (s1, e1) = [(m.exon_blocks[0][0], m.exon_blocks[-1][1]) for m in models]
        staggered = OR(AND(s0 < s1, e0 < e1), AND(s1 < s0, e1 < e0))
        g.check(len(sub) >= 1, "of two novel models with the same intron chain on one strand at least one is marked as redundant",
                detail={"substitutions": dict(sub)}, exclude=g.excl({"C04-same-chain-staggered-ends-both-kept": staggered,
                                                                     "C04-mono-intronic-models-never-compared": n_exons == 2}))
        for a, b in sub.items():
            g.check(a != b and b not in sub, "a redundant model is replaced by a model that is kept")
    return fn


def h_filter_bookkeeping(preset):
    """the real filter_transcripts on two novel models with one intron chain (symbolic ends, symbolic read support, symbolic
    coverage of the component): afterwards the read lists, the counters and the model list describe the same set of models -
    transcript_model_reads is written from the read lists, the GTF from the model list"""
    from collections import defaultdict

    def fn(g):
        params = readfam.construction_params(preset)
        params.simple_models_mapq_cutoff = 30
        introns = [(1201, 1999), (2151, 2999)]
        c = gbmc.GraphBasedModelConstructor.__new__(gbmc.GraphBasedModelConstructor)
        c.params = params
        c.transcript_read_ids, c.internal_counter, c.read_assignment_counts = defaultdict(list), defaultdict(int), defaultdict(int)
        cov = g.int("component_coverage", 0, 400)
        c.intron_graph = Obj(get_max_component_coverage=lambda path: cov, is_monointron=lambda v: False,
                             get_overlapping_component_max_coverage=lambda rng: cov)
        models = []
        # model 0 has fixed ends; model 1 is placed by the solver relative to it (contained / overhanging / staggered); every model has one
        # read of its own whose ends either support the model's ends or lie 80 bp inside them (then the real end correction moves the
        # model's ends), and model 1 may share a read with model 0
        offs = [(0, 0), (80, 0), (0, 80), (80, 80)]
        for k in range(2):
            s_ = 1050 if k == 0 else [1050, 700, 1100, 1046][g.choice("model1_start", 4)]      # 700: far beyond every "similar ends" tolerance
            e_ = 3150 if k == 0 else [3150, 3200, 3050, 3154][g.choice("model1_end", 4)]
            m = TranscriptModel("chr1", "+", "transcript%d.chr1.nnic" % (k + 1), "novel_gene_chr1_9", [(s_, 1200), (2000, 2150), (3000, e_)],
                                TranscriptModelType.novel_not_in_catalog)
            m.intron_path = tuple(introns)
            models.append(m)
            o = (offs if k == 0 else [(0, 0), (360, 0), (0, 80), (360, 80)])[g.choice("model%d_read_ends_inside" % k, 4)]
            ra = Obj(read_id="m%d_r" % k, read_group="NA", mapping_quality=60, corrected_exons=[(min(s_ + o[0], 1150), 1200), (2000, 2150), (3000, e_ - o[1])])
            call(g, c.save_assigned_read, ra, m.transcript_id)
            if k == 1 and bool(g.bool("model1_shares_a_read_with_model0")):
                sh = Obj(read_id="shared_read", read_group="NA", mapping_quality=60, corrected_exons=[(1100, 1200), (2000, 2150), (3000, 3100)])
                call(g, c.save_assigned_read, sh, models[0].transcript_id)
                call(g, c.save_assigned_read, sh, models[1].transcript_id)
            c.internal_counter[m.transcript_id] = g.int("model%d_unique_reads" % k, 0, 10)
        c.transcript_model_storage = list(models)
        call(g, c.filter_transcripts)
        kept = [m.transcript_id for m in c.transcript_model_storage]
        det = {"kept": kept, "read_lists": sorted(c.transcript_read_ids.keys()), "counters": sorted(c.internal_counter.keys())}
        g.check(sorted(c.transcript_read_ids.keys()) == sorted(kept), "read lists exist exactly for the models that are kept (transcript_model_reads references only "
                "transcripts of the GTF, and every kept model has its read list)", detail=det)
        for t in kept:
            g.check(len(c.transcript_read_ids[t]) >= 1, "a kept novel model has at least one supporting read listed", detail=det)
        for rid, n_ in c.read_assignment_counts.items():
            listed = sum(1 for t in c.transcript_read_ids for a in c.transcript_read_ids[t] if a.read_id == rid)
            g.check(n_ == listed, "the per-read model counter equals the number of models listing the read",
                    detail=dict(det, read=rid, counter=str(n_), listed=listed))
    return fn


POOL = [(1201, 1999), (2151, 2999), (3301, 3999)]


def h_clustering(n, known_mask_bits=True):
    """IntronCollector.cluster_introns + simplify_correction_map: read introns near the pool introns (offset chosen by the
    solver within delta+1), SYMBOLIC read counts; evidence invariants of clustering and substitution"""
    def fn(g):
        params = readfam.construction_params("default")
        d = params.delta
        offs = [-d - 1, -1, 0, d]
        introns = []
        for i in range(n):
            base = POOL[i % 2]                      # several variants of the same two junctions
            o1 = offs[g.choice("intron%d_left_offset" % i, len(offs))]
            o2 = offs[g.choice("intron%d_right_offset" % i, len(offs))]
            it = (base[0] + o1, base[1] + o2)
            if it in introns:
                g.assume(False)
            introns.append(it)
        counts = {it: g.int("reads_with_intron%d" % i, 1, 200) for i, it in enumerate(introns)}
        known = {it for i, it in enumerate(introns) if g.bool("intron%d_is_annotated" % i)} if known_mask_bits else set()
        gi = Obj(intron_profiles=Obj(features=sorted(known)))
        ic = intron_graph.IntronCollector(gi, d)
        call(g, ic.cluster_introns, dict(counts), params.min_novel_intron_count)
        clustered, cmap, disc = ic.clustered_introns, ic.intron_correction_map, ic.discarded_introns
        present = set(introns)
        g.check(set(clustered.keys()) <= present, "clustered introns are introns present in the reads")
        g.check(set(cmap.values()) <= present and set(cmap.keys()) <= present, "substitutes are introns present in the reads")
        for a, b in cmap.items():
            g.check(abs(a[0] - b[0]) <= d and abs(a[1] - b[1]) <= d, "an intron is only substituted by a similar intron (within delta)")
            g.check(b in clustered, "a substitute is a kept intron")
            g.check(a not in known, "an annotated intron is never substituted")
        for it in introns:
            g.check((it in clustered) + (it in cmap) + (it in disc) == 1, "every read intron is kept, substituted or discarded - exactly one of them",
                    detail={"intron": list(it)})
        total_kept = sum_vals([clustered[k_] for k_ in clustered])
        total_in = sum_vals([counts[it] for it in introns if it not in disc])
        g.check(total_kept == total_in, "read counts are conserved by clustering (kept + substituted)")
        for it in disc:
            g.check(counts[it] < params.min_novel_intron_count, "only introns below the minimal count are discarded")
        call(g, ic.simplify_correction_map)
        for a, b in ic.intron_correction_map.items():
            g.check(b not in ic.intron_correction_map and b not in ic.discarded_introns, "after simplification no substitution chain ends in a substituted or discarded intron")
    return fn


def sum_vals(xs):
    acc = 0
    for x in xs:
        acc = acc + x
    return acc


def h_graph_vertices(n_reads):
    """the real IntronGraph (collect, cluster, construct, simplify, terminal positions) on reads whose intron chains are
    chosen by the solver from near-identical variants: every vertex the graph keeps is an intron of some read"""
    def fn(g):
        params = readfam.construction_params("default")
        variants = [[(1201, 1999), (1203, 1999), (1201, 2004)], [(2151, 2999), (2155, 2999)], [(3301, 3999)]]
        reads, all_read_introns = [], set()
        for r in range(n_reads):
            n_int = 1 + g.choice("read%d_introns" % r, 3)
            chain = [variants[k][g.choice("read%d_variant%d" % (r, k), len(variants[k]))] for k in range(n_int)]
            start, end = 1000 + g.choice("read%d_start" % r, 3) * 40, chain[-1][1] + 150
            exons = common.get_exons((start, end), chain)
            reads.append(Obj(read_id="r%d" % r, corrected_introns=chain, corrected_exons=exons, exons=exons, multimapper=False, polyA_found=bool(g.bool("read%d_polya" % r)),
                             polya_info=Obj(external_polya_pos=-1, external_polyt_pos=-1, internal_polya_pos=-1, internal_polyt_pos=-1), strand="+",
                             cage_found=False, read_group="NA", mapping_quality=60))
            all_read_introns.update(chain)
        gi = Obj(intron_profiles=Obj(features=[]), all_isoforms_introns={}, all_isoforms_exons={}, start=900, end=4500, chr_id="chr1")
        graph = call(g, intron_graph.IntronGraph, params, gi, reads)
        verts = set()
        for v, outs in list(graph.outgoing_edges.items()) + list(graph.incoming_edges.items()):
            verts.add(v)
            verts.update(outs)
        inner = {v for v in verts if v[0] >= 0}
        g.check(inner <= all_read_introns, "every intron vertex of the simplified graph is an intron present in some read",
                detail={"foreign": sorted(inner - all_read_introns)})
        g.check(set(graph.intron_collector.clustered_introns) <= all_read_introns, "kept introns are read introns")
    return fn


def instances(tier, seed):
    q = tier == "quick"
    G = "src.graph_based_model_construction:GraphBasedModelConstructor."
    out = []
    for n in ((2, 3) if q else (1, 2, 3)):
        out.append(Instance("labels[introns=%d]" % n, h_labels(n), [G + "construct_fl_isoforms", G + "select_reference_gene", G + "save_assigned_read",
                                                                    "src.gene_info:StrandDetector.get_strand"],
                            "one full-length path with %d introns; annotation membership, sites, terminal vertices, report level chosen by the solver; symbolic read count" % n,
                            weight=100 * 3 ** n, budget_s=2400))
    for n in ((2,) if q else (2, 3)):
        out.append(Instance("clustering[introns=%d]" % n, h_clustering(n), ["src.intron_graph:IntronCollector.cluster_introns",
                                                                             "src.intron_graph:IntronCollector.construct_similar_intron_map",
                                                                             "src.intron_graph:IntronCollector.simplify_correction_map"],
                            "%d read introns at solver-chosen offsets (within delta+1) of two junctions, symbolic read counts, symbolic annotation membership" % n,
                            weight=50 * 4 ** n, budget_s=2400))
    for n in ((2,) if q else (2, 3)):
        out.append(Instance("graph_vertices[reads=%d]" % n, h_graph_vertices(n), ["src.intron_graph:IntronGraph.__init__", "src.intron_graph:IntronGraph.construct",
                                                                                  "src.intron_graph:IntronGraph.simplify", "src.intron_graph:IntronGraph.clean_tips_and_bulges",
                                                                                  "src.intron_graph:IntronGraph.collapse_vertex_set"],
                            "%d reads with solver-chosen chains over near-identical intron variants" % n, weight=5000, budget_s=2400))
    for preset in (["default"] if q else ["precise", "default", "loose"]):
        out.append(Instance("filter_bookkeeping[%s]" % preset, h_filter_bookkeeping(preset),
                            [G + "filter_transcripts", G + "delete_from_storage", G + "detect_similar_isoforms", G + "correct_novel_transcript_ends", G + "mapping_quality"],
                            "two novel models with one intron chain: 16 relative placements x 16 read-end patterns x shared read, symbolic unique-read counts and component coverage", weight=800, budget_s=1500))
        out.append(Instance("similar_mono_intronic[%s]" % preset, h_similar(preset, 2), [G + "detect_similar_isoforms"],
                            "2 novel two-exon models with one intron, symbolic ends", weight=30, budget_s=600))
        out.append(Instance("similar[%s]" % preset, h_similar(preset), [G + "detect_similar_isoforms", "src.long_read_assigner:LongReadAssigner.assign_to_isoform"],
                            "two novel models with one intron chain, symbolic ends", weight=300, budget_s=1800))
    return out
