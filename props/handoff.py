"""Shared harness: the hand-off between read collection and per-chromosome processing.

The real DatasetProcessor.collect_reads (counting loop, prepare_multimapper_dict, resolve_multimappers, info file) runs with
collect_reads_in_parallel / BasicReadAssignmentLoader / pysam / open replaced by fakes, in default and --high_memory mode,
on a solver-chosen multiset of alignments (read id, chromosome, assignment class, secondary flag; symbolic coordinates).
The verdict files are read back with the real reader loop of construct_models_in_parallel.
Used by C08 (every multi-aligned read is resolved, in both modes alike), C09 (group universe) and C06 (mode equality)."""
import os
import tempfile

import src.dataset_processor as dp
import src.isoform_assignment as ia
import src.serialization as ser
import src.multimap_resolver as mr
from src.alignment_processor import AlignmentType

from props import c15
from vlib import shims
from vlib.symbytes import SymStream
from vlib.spec import AND, OR, NOT, ITE, IMPLIES, IFF, SUM, call

RT = ia.ReadAssignmentType
CHRS = ["chr1", "chr2"]
READS = ["rA", "rB"]
TYPES = [RT.unique, RT.inconsistent, RT.noninformative]


def setup_symbolic():
    c15.setup_symbolic()
    shims.install([mr], ["min", "max"])
    dp.int = dp.__dict__.get("int", int)


class Obj:
    def __init__(self, **kw):
        self.__dict__.update(kw)


def mk_alignments(g, n, groups=("NA",)):
    als = []
    for i in range(n):
        ra = Obj(assignment_id=i + 1, read_id=READS[g.choice("al%d_read" % i, len(READS))], chr_id=CHRS[g.choice("al%d_chr" % i, len(CHRS))],
                 exons=[(g.int("al%d_start" % i, 1, 10 ** 6), g.int("al%d_end" % i, 1, 10 ** 6))],
                 genomic_region=(g.int("al%d_reg0" % i, 1, 10 ** 6), g.int("al%d_reg1" % i, 1, 10 ** 6)),
                 multimapper=bool(g.bool("al%d_secondary" % i)), polyA_found=bool(g.bool("al%d_polya" % i)),
                 assignment_type=TYPES[g.choice("al%d_type" % i, len(TYPES))], isoform_matches=[])
        g.add(ra.exons[0][0] <= ra.exons[0][1])
        g.add(ra.genomic_region[0] <= ra.genomic_region[1])
        ra.gene_assignment_type = ra.assignment_type
        if ra.assignment_type != RT.noninformative:
            ra.isoform_matches = [Obj(assigned_gene="G_" + ra.chr_id, assigned_transcript="T_" + ra.chr_id, penalty_score=0.0)]
        ra.group = groups[g.choice("al%d_group" % i, len(groups))] if len(groups) > 1 else groups[0]
        als.append(ra)
    return als


OPTIONS_CHANGED = {}
UNMAPPED = {}          # "per_file": unmapped-read counts of the experiment's BAM files (default: one file without unmapped reads)
STATS = {}


class FakeQuickLoader:
    """BasicReadAssignmentLoader: yields the compact records of one chromosome's save file"""
    store = {}

    def __init__(self, path):
        self.items = list(FakeQuickLoader.store.get(path, []))
        self.done = False

    def has_next(self):
        return not self.done

    def get_next(self):
        self.done = True
        for r in self.items:
            yield r


def run_collect(g, als, high_memory, workdir):
    """one execution of the real collect_reads; returns (verdicts per chromosome, info record)"""
    streams = {}

    def fake_open(path, mode="r", *a, **k):
        if "w" in mode:
            streams[path] = SymStream(g)
        st = streams[path]
        st.name = path
        st.__enter__ = lambda: st
        return st
    raw = os.path.join(workdir, "smp.save")
    FakeQuickLoader.store = {}
    per_chr = {c: [a for a in als if a.chr_id == c] for c in CHRS}
    for c in CHRS:
        FakeQuickLoader.store[raw + "_" + c] = [ia.BasicReadAssignment(a) for a in per_chr[c]]

    def fake_collect(sample, chr_id, args):
        recs = per_chr[chr_id]
        processed = [ia.BasicReadAssignment(a) for a in recs] if args.high_memory else [a.read_id for a in recs]
        return set(a.group for a in recs), dp.EnumStats(), processed
    saved = (dp.collect_reads_in_parallel, dp.BasicReadAssignmentLoader, dp.pysam, dp.__dict__.get("open"), ser.__dict__.get("open"))
    dp.collect_reads_in_parallel = fake_collect
    dp.BasicReadAssignmentLoader = FakeQuickLoader
    unmapped = UNMAPPED.get("per_file") or [0]
    class FakeAlignmentFile:
        """pysam.AlignmentFile as far as collect_reads uses it: .unmapped, close(), context manager"""
        def __init__(self, path, *a, **k):
            self.unmapped = unmapped[int(path[1:-4])]

        def close(self):
            pass

        def __enter__(self):
            return self

        def __exit__(self, *a):
            return False
    dp.pysam = Obj(AlignmentFile=FakeAlignmentFile)
    dp.open = fake_open
    try:
        this = dp.DatasetProcessor.__new__(dp.DatasetProcessor)
        this.args = Obj(threads=1, high_memory=high_memory, resume=False, multimap_strategy=mr.MultimapResolvingStrategy.take_best,
                        keep_tmp=True, gunzipped_reference=None, no_model_construction=False, genedb=None, read_group=None)
        this.get_chr_list = lambda: list(CHRS)
        this.alignment_stat_counter = dp.EnumStats()
        sample = Obj(out_raw_file=raw, file_list=[["f%d.bam" % i] for i in range(len(unmapped))])
        before = dict(vars(this.args))
        call(g, this.collect_reads, sample)
        changed = sorted(k for k in set(before) | set(vars(this.args)) if before.get(k, "<unset>") is not vars(this.args).get(k, "<unset>")
                         and before.get(k, "<unset>") != vars(this.args).get(k, "<unset>"))
        OPTIONS_CHANGED[high_memory] = changed
        STATS[high_memory] = this.alignment_stat_counter.stats_dict[AlignmentType.unaligned]
    finally:
        dp.collect_reads_in_parallel, dp.BasicReadAssignmentLoader, dp.pysam = saved[0], saved[1], saved[2]
        if saved[3] is None:
            dp.__dict__.pop("open", None)
        else:
            dp.open = saved[3]
    verdicts = {}
    for c in CHRS:
        st = streams.get(raw + "_multimappers_" + c)
        lst = []
        if st is not None:
            st.rewind()
            size = ser.read_int(st)
            guard = 0
            while size != ser.TERMINATION_INT and guard < 50:
                guard += 1
                for _ in range(size):
                    a = ia.BasicReadAssignment.deserialize(st)
                    if a.chr_id == c:
                        lst.append(a)
                size = ser.read_int(st)
        verdicts[c] = lst
    info = streams.get(raw + "_info")
    info.rewind()
    total = ser.read_int(info)
    polya = ser.read_int(info)
    groups = set(ser.read_list(info, ser.read_string))
    return verdicts, Obj(total_assignments=total, polya=polya, groups=groups), raw + "_lock" in streams


def h_handoff(n, groups=("NA",), n_files=1):
    def fn(g):
        g.batch = False
        als = mk_alignments(g, n, groups)
        UNMAPPED["per_file"] = [g.int("file%d_unmapped_reads" % i, 0, 1000) for i in range(n_files)] if n_files > 1 else [0]
        workdir = tempfile.gettempdir()
        res = {}
        for hm in (False, True):
            res[hm] = run_collect(g, als, hm, workdir)
        for hm in (False, True):
            verdicts, info, locked = res[hm]
            g.check(locked, "the stage lock is written", detail={"high_memory": hm})
            g.check(STATS[hm] == SUM(UNMAPPED["per_file"]), "the unaligned-read statistic of an experiment = unmapped reads of all its BAM files",
                    detail={"high_memory": hm, "files": len(UNMAPPED["per_file"])})
            g.check(not OPTIONS_CHANGED.get(hm), "read collection leaves the run options as they were (they are shared by all experiments of the run)",
                    detail={"high_memory": hm, "changed": OPTIONS_CHANGED.get(hm)})
            n_kept = 0
            n_polya = 0
            for a in als:
                same_read = [b for b in als if b.read_id == a.read_id]
                v = [x for x in verdicts[a.chr_id] if x.read_id == a.read_id and x.assignment_id == a.assignment_id]
                if len(same_read) >= 2:
                    g.check(len(v) == 1, "every alignment of a read with several alignments gets a resolution verdict in the file of its chromosome",
                            detail={"high_memory": hm, "read": a.read_id, "alignments_of_read": [(b.assignment_id, b.chr_id) for b in same_read]})
                    if len(v) == 1 and v[0].assignment_type != RT.suspended:
                        n_kept += 1
                        n_polya += 1 if a.polyA_found else 0
                else:
                    g.check(len(v) == 0, "a read with a single alignment needs no verdict")
                    n_kept += 1
                    n_polya += 1 if a.polyA_found else 0
            g.check(info.total_assignments == n_kept, "the recorded total = number of alignments that are not suspended", detail={"high_memory": hm})
            g.check(info.polya == n_polya, "the recorded polyA count = number of retained alignments with a polyA tail (it decides the polyA requirements)",
                    detail={"high_memory": hm, "recorded": str(info.polya), "expected": n_polya})
            g.check(info.groups == set(a.group for a in als), "the group universe handed to the next stage = union of the groups seen on all chromosomes",
                    detail={"high_memory": hm, "written": sorted(info.groups)})
        # both modes resolve identically
        for c in CHRS:
            a_, b_ = res[False][0][c], res[True][0][c]
            ka = sorted((x.read_id, x.assignment_id, x.assignment_type.value, x.gene_assignment_type.value, bool(x.multimapper)) for x in a_)
            kb = sorted((x.read_id, x.assignment_id, x.assignment_type.value, x.gene_assignment_type.value, bool(x.multimapper)) for x in b_)
            g.check(ka == kb, "default and --high_memory mode write the same verdicts", detail={"chr": c, "default": str(ka), "high_memory": str(kb)})
    return fn
