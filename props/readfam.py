"""Shared driver for C01 / C14 / C11: catalogue loci, matching presets taken from the real
isoquant.set_matching_options, isoform-anchored symbolic read families and the real
profile-construction + assignment pipeline."""
import argparse

import src.common as common
import src.long_read_profiles as lrp
import src.long_read_assigner as lra
import src.junction_comparator as jc
import src.polya_verification as pv
import src.isoform_assignment as ia
import src.gene_info as gene_info_mod
from src.gene_info import GeneInfo, TranscriptModel, TranscriptModelType
from src.polya_finder import PolyAInfo

from vlib import shims
from vlib.spec import AND, OR, NOT, ITE, IMPLIES, IFF, SUM, call, sym_min, sym_max

RT = ia.ReadAssignmentType
CONSISTENT = (RT.unique, RT.unique_minor_difference, RT.ambiguous)

MODULES = [common, lrp, lra, jc, pv]


class _SymMath:
    """math module as seen by src.long_read_assigner under symbolic execution: fsum over exact reals is the plain sum (the
    engine's reals are exact, so the result does not depend on the order either); everything else is the real math"""
    def __getattr__(self, name):
        import math
        return getattr(math, name)

    @staticmethod
    def fsum(items):
        items = list(items)
        total = 0
        for x in items:
            total = total + x
        return total


def setup_symbolic():
    shims.install([common], ["float", "min", "max"])
    shims.install([lrp, lra, jc, pv], ["min", "max", "float"])
    if "math" in lra.__dict__:
        lra.math = _SymMath()


def matching_params(preset, correction="default_ont"):
    import isoquant
    a = argparse.Namespace(matching_strategy=preset, delta=None, resolve_ambiguous="default", splice_correction_strategy=correction,
                           count_exons=False)
    isoquant.set_matching_options(a)
    isoquant.set_splice_correction_options(a)
    return a


def construction_params(preset="default", construction="default_ont"):
    """matching + model-construction parameters, both produced by the real isoquant.set_* functions"""
    import isoquant
    a = matching_params(preset)
    a.model_construction_strategy, a.graph_clustering_distance, a.report_novel_unspliced = construction, None, None
    a.no_model_construction, a.polya_requirement, a.report_canonical, a.debug = False, "auto", "auto", False
    isoquant.set_model_construction_options(a)
    return a


# name -> list of (transcript, gene, strand, exons)
LOCI = {
    "single": [("T1", "G1", "+", [(1000, 1200), (2000, 2150), (3000, 3300)])],
    "skip": [("T1", "G1", "+", [(1000, 1200), (2000, 2150), (3000, 3300)]),
             ("T2", "G1", "+", [(1000, 1200), (3000, 3300)])],
    "alt_site_far": [("T1", "G1", "+", [(1000, 1200), (2000, 2150), (3000, 3300)]),
                     ("T3", "G1", "+", [(1000, 1200), (2000, 2250), (3000, 3300)])],
    "alt_site_near": [("T1", "G1", "-", [(1000, 1200), (2000, 2150), (3000, 3300)]),
                      ("T4", "G1", "-", [(1000, 1200), (2000, 2153), (3000, 3300)])],
    "ism_nested": [("T1", "G1", "+", [(1000, 1200), (2000, 2150), (3000, 3300), (4000, 4200)]),
                   ("T5", "G1", "+", [(2000, 2150), (3000, 3300), (4000, 4200)])],
    "mono_inside": [("T1", "G1", "+", [(1000, 1200), (2000, 2150), (3000, 3300)]),
                    ("T6", "G2", "+", [(2400, 2800)])],
    "antisense": [("T1", "G1", "+", [(1000, 1200), (2000, 2150), (3000, 3300)]),
                  ("T7", "G2", "-", [(1100, 1200), (2600, 2700), (3000, 3400)])],
    "alt_ends": [("T1", "G1", "-", [(1000, 1200), (2000, 2150), (3000, 3300)]),
                 ("T8", "G1", "-", [(500, 700), (2000, 2150), (3000, 3300)]),
                 ("T9", "G1", "-", [(1000, 1200), (2000, 2150), (3000, 3900)])],
    "retained_intron": [("T1", "G1", "+", [(1000, 1200), (2000, 2150), (3000, 3300)]),
                        ("T10", "G1", "+", [(1000, 1200), (2000, 3300)])],
    "near_ends": [("T1", "G1", "-", [(1000, 1200), (2000, 2150), (3000, 3300)]),
                  ("T11", "G1", "-", [(1003, 1200), (2000, 2150), (3000, 3297)])],
    "micro_exon": [("T1", "G1", "+", [(1000, 1200), (2000, 2020), (3000, 3300)]),
                   ("T2", "G1", "+", [(1000, 1200), (3000, 3300)])],
    "alt_site_tie": [("T1", "G1", "+", [(1000, 1200), (2000, 2150), (3000, 3300)]),
                     ("T12", "G1", "+", [(1000, 1200), (2000, 2154), (3002, 3300)])],
    "alt_site_other_end": [("T1", "G1", "+", [(1000, 1200), (2000, 2150), (3000, 3300)]),
                           ("T13", "G1", "+", [(1000, 1200), (2004, 2150), (4000, 4200)])],
    "short_last": [("T1", "G1", "+", [(1000, 1200), (2000, 2900), (3400, 3460)])],
    "short_first": [("T1", "G1", "-", [(1000, 1060), (2000, 2900), (3400, 3700)])],
}


def parametric_models(g, kind):
    """loci whose second isoform is placed by the solver relative to the first one"""
    T1 = ("T1", "G1", "+", [(1000, 1200), (2000, 2150), (3000, 3300)])
    if kind == "alt_sites":
        # inner exon of T2 = inner exon of T1 with both borders moved by symbolic amounts (within and beyond delta)
        a, b = g.int("T2_acceptor_shift", -15, 15), g.int("T2_donor_shift", -15, 15)
        g.add(OR(a != 0, b != 0))
        return [T1, ("T2", "G1", "+", [(1000, 1200), (2000 + a, 2150 + b), (3000, 3300)])]
    if kind == "alt_ends":
        a, b = g.int("T2_start_shift", -120, 120), g.int("T2_end_shift", -120, 120)
        g.add(OR(a != 0, b != 0))
        return [T1, ("T2", "G1", "+", [(1000 + a, 1200), (2000, 2150), (3000, 3300 + b)])]
    if kind == "inner_exon_anywhere":
        # T2 has the terminal exons of T1 and an inner exon placed anywhere in between
        s_ = g.int("T2_inner_start", 1300, 2800)
        ln = g.int("T2_inner_length", 20, 300)
        g.add(s_ + ln <= 2900)
        return [T1, ("T2", "G1", "+", [(1000, 1200), (s_, s_ + ln), (3000, 3300)])]
    raise ValueError(kind)


def build_locus(name, delta, models=None):
    ms = [TranscriptModel("chr1", s, t, gid, ex, TranscriptModelType.known) for t, gid, s, ex in (models or LOCI[name])]
    gi = GeneInfo.from_models(ms, delta)
    gi.gene_strands = {gid: s for _, gid, s, _ in (models or LOCI[name])}
    return gi


def positive_read(g, exons, i, j, delta, end_slack=0, min_len=25):
    """read following exons[i..j] of an isoform: inner splice sites jittered by at most delta, ends inside the
    terminal exons of the sub-chain (or up to end_slack outside the isoform's own ends)"""
    sub = exons[i:j + 1]
    out = []
    for k, (a, b) in enumerate(sub):
        first, last = k == 0, k == len(sub) - 1
        m = min(min_len, max(1, (b - a) // 2))        # short (micro) exons keep a shorter minimal overhang
        if first:
            lo = a - end_slack if i == 0 else a
            s = g.int("read_start", lo, b - m if not last else b - 2 * m)
        else:
            d = g.int("jitter_acceptor%d" % (i + k), -delta, delta)
            s = a + d
        if last:
            hi = b + end_slack if j == len(exons) - 1 else b
            e = g.int("read_end", (s + m) if first else (a + m), hi)
        else:
            d = g.int("jitter_donor%d" % (i + k), -delta, delta)
            e = b + d
        out.append((s, e))
    for (s, e) in out:
        g.add(s + 1 <= e)          # jitters larger than a micro-exon must not turn it inside out
    return out


def assign(g, gi, params, read_exons, polya_info=None):
    polya_info = polya_info or PolyAInfo(-1, -1, -1, -1)
    pc = lrp.CombinedProfileConstructor(gi, params)
    prof = call(g, pc.construct_profiles, read_exons, polya_info, [])
    assigner = lra.LongReadAssigner(gi, params)
    ra = call(g, assigner.assign_to_isoform, "read", prof)
    return prof, ra


def introns_of(exons):
    return [(exons[k][1] + 1, exons[k + 1][0] - 1) for k in range(len(exons) - 1)]


def intron_chain_compatible(read_exons, iso_exons, delta, end_tol=None):
    """the read's introns match a consecutive run of the isoform's introns within delta and the read's ends do not
    reach beyond the exons flanking that run by an isoform intron (no isoform intron lies inside a read exon)"""
    ri = introns_of(read_exons)
    ii = introns_of(iso_exons)
    et = delta if end_tol is None else end_tol
    if not ri:
        # mono-exonic read: lies inside one exon of the isoform (up to the documented end tolerance)
        return OR([AND(e[0] - et <= read_exons[0][0], read_exons[0][1] <= e[1] + et) for e in iso_exons])
    if len(ri) > len(ii):
        return False
    opts = []
    for off in range(len(ii) - len(ri) + 1):
        c = [AND(abs_le(ri[k][0] - ii[off + k][0], delta), abs_le(ri[k][1] - ii[off + k][1], delta)) for k in range(len(ri))]
        # ends stay inside the flanking exons (within delta)
        c.append(read_exons[0][0] >= iso_exons[off][0] - et if off > 0 else True)
        c.append(read_exons[-1][1] <= iso_exons[off + len(ri)][1] + et if off + len(ri) < len(ii) else True)
        opts.append(AND(c))
    return OR(opts)


def abs_le(x, d):
    return AND(x <= d, -x <= d)


def chains_equal_within(a_exons, b_exons, delta):
    """two isoforms whose intron chains cannot be told apart within delta"""
    ia_, ib = introns_of(a_exons), introns_of(b_exons)
    if len(ia_) != len(ib):
        return False
    return AND([AND(abs_le(x[0] - y[0], delta), abs_le(x[1] - y[1], delta)) for x, y in zip(ia_, ib)]) if ia_ else True
