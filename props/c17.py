"""C17 - identifiers in the outputs are unique, collision-free and functional."""
import io
import re

import src.id_policy as id_policy
import src.transcript_printer as transcript_printer
import src.common as common
from src.gene_info import TranscriptModel, TranscriptModelType

from vlib import shims, symx
from vlib.shims import SymDict, SymSet
from vlib.runner import Instance
from vlib.spec import AND, OR, NOT, ITE, IMPLIES, IFF, SUM, call, sorted_disjoint, interval_list

PROPERTY = "C17"
EXPLANATION = ("Identifier allocation as bounded symbolic execution: the exon-id table (real FeatureIdStorage.get_id) is "
               "queried with exon keys whose coordinates and strands are symbolic, against a reference table with symbolic "
               "entries; the number distributor runs against reference ids whose numbers are symbolic (the real parser reads "
               "them back from sentinel text); GFFPrinter.dump prints models with symbolic coordinates and the exon_id "
               "attributes are parsed back from the GTF text.")
STUBS = ["FeatureIdStorage.__init__ recompiled from current source with {} -> dict(); src.id_policy.dict -> association-list dict "
         "(keys compared by ==, no hashing)",
         "src.id_policy.set / int -> shims (association-list set; int() of sentinel text gives the symbolic number)",
         "gffutils database -> fake whose region() yields features with the listed ids / exon_id attributes",
         "gene_info for GFFPrinter.dump -> minimal fake (no annotation)"]
ASSUMPTIONS = ["novel ids are formatted as transcript<N>... / novel_gene_<chr>_<N> (src/graph_based_model_construction.py)",
               "one FeatureIdStorage per chromosome, shared by the printers of that chromosome (construct_models_in_parallel)"]
OUTSIDE = ["uniqueness over the concatenation of all per-chromosome files beyond the two-storage step",
           "more than 3 id queries / 3 reference numbers per instance"]


def setup_symbolic():
    from vlib import astshim
    id_policy.set = shims.sym_set
    id_policy.dict = shims.sym_dict
    id_policy.int = shims.sym_int
    astshim.patch_method(id_policy.FeatureIdStorage, "__init__")
    shims.install([common, transcript_printer], ["min", "max"])


class Obj:
    def __init__(self, **kw):
        self.__dict__.update(kw)


class FakeDB:
    def __init__(self, genes=(), transcripts=(), exons=()):
        self.f = {"gene": list(genes), "transcript": list(transcripts), "exon": list(exons)}

    def _of_type(self, featuretype):
        if isinstance(featuretype, (tuple, list)):
            out = []
            for t in featuretype:
                out += self.f.get(t, [])
            return out
        return list(self.f.get(featuretype, []))

    def region(self, seqid=None, start=None, end=None, featuretype=None, **kw):
        return iter([f for f in self._of_type(featuretype) if getattr(f, "seqid", seqid) == seqid])

    def features_of_type(self, featuretype, **kw):
        return iter(self._of_type(featuretype))

    def all_features(self, featuretype=None, **kw):
        return iter(self._of_type(featuretype))

    def __bool__(self):
        return True


def key_eq(a, b):
    return AND(a[0] == b[0], a[1] == b[1], a[2] == b[2], a[3] == b[3])


def h_exon_ids(n_ref, n_calls, ref_style):
    def fn(g):
        shims.CURRENT["g"] = g if g.symbolic else None
        chr_id = "chr1"
        ref = []
        exons = []
        for i in range(n_ref):
            s, e = g.int("ref%d_start" % i, 1), g.int("ref%d_end" % i, 1)
            g.add(s <= e)
            strand = "+" if g.bool("ref%d_plus" % i) else "-"
            rid = ["ENSE000%d" % i, "chr1.%d" % (i + 1)][ref_style]
            ref.append(((chr_id, s, e, strand), rid))
            exons.append(Obj(seqid=chr_id, start=s, end=e, strand=strand, attributes={"exon_id": [rid]}))
        for i in range(n_ref):
            for j in range(i):
                g.add(NOT(key_eq(ref[i][0], ref[j][0])))
        # a reference exon of ANOTHER chromosome (its id must never be handed out on this one)
        os_, oe = g.int("other_chr_start", 1), g.int("other_chr_end", 1)
        g.add(os_ <= oe)
        exons.append(Obj(seqid="chr2", start=os_, end=oe, strand="+", attributes={"exon_id": ["ENSE_OTHER_CHR"]}))
        # the real constructor (recompiled with {} -> dict() so that the table is an association list)
        st = call(g, id_policy.FeatureIdStorage, id_policy.SimpleIDDistributor(), FakeDB(exons=exons), chr_id, "exon")
        if not g.symbolic:
            pass
        calls = []
        for i in range(n_calls):
            s, e = g.int("q%d_start" % i, 1), g.int("q%d_end" % i, 1)
            g.add(s <= e)
            strand = "+" if g.bool("q%d_plus" % i) else "-"
            r = call(g, st.get_id, chr_id, (s, e), strand)
            calls.append(((chr_id, s, e, strand), r))
        for i, (k1, r1) in enumerate(calls):
            g.check(isinstance(r1, str), "exon_id is a string identifier on every call (including the first)", detail={"returned": repr(r1)})
            for k2, r2 in calls[:i]:
                same = key_eq(k1, k2)
                g.check(IMPLIES(same, r1 == r2), "identical exons carry the same exon_id wherever they occur",
                        detail={"ids": [repr(r2), repr(r1)]})
                g.check(IMPLIES(NOT(same), r1 != r2), "distinct exons carry distinct exon_ids", detail={"ids": [repr(r2), repr(r1)]})
            g.check(r1 != "ENSE_OTHER_CHR", "the id of an exon of another chromosome is never used here")
            for kr, rid in ref:
                g.check(IMPLIES(key_eq(k1, kr), r1 == rid), "exon_ids present in the reference are preserved")
                g.check(IMPLIES(NOT(key_eq(k1, kr)), r1 != rid), "a generated exon_id never equals the id of a different reference exon",
                        detail={"reference_id": rid, "returned": repr(r1)})
    return fn


def h_two_chromosomes(g):
    ids = []
    for chr_id in ("chr1", "chr2"):
        st = id_policy.FeatureIdStorage(id_policy.SimpleIDDistributor())
        for i in range(2):
            s, e = g.int("%s_q%d_start" % (chr_id, i), 1), g.int("%s_q%d_end" % (chr_id, i), 1)
            g.add(s <= e)
            r = call(g, st.get_id, chr_id, (s, e), "+")
            r = call(g, st.get_id, chr_id, (s, e), "+")
            ids.append(((chr_id, s, e), r))
    for i in range(len(ids)):
        for j in range(i):
            (c1, s1, e1), r1 = ids[i]
            (c2, s2, e2), r2 = ids[j]
            same = AND(c1 == c2, s1 == s2, e1 == e2)
            g.check(IFF(same, r1 == r2), "exon_ids are distinct across chromosomes and functional within one")


def h_distributor(n_ref, n_inc):
    def fn(g):
        shims.CURRENT["g"] = g if g.symbolic else None
        nums = [g.int("ref_number%d" % i, 1) for i in range(n_ref)]
        genes, transcripts = [], []
        # contig names as they occur in reference assemblies (underscores and dots included)
        contig = ["chr1", "chrUn_JH584304", "chr1_GL456211_random", "HSCHR6_MHC.1"][g.choice("contig_name", 4)]
        for i, n in enumerate(nums):
            if g.bool("ref%d_is_gene" % i):
                genes.append(Obj(id=common.TranscriptNaming.novel_gene_prefix + contig + "_" + str(n)))
            else:
                transcripts.append(Obj(id=common.TranscriptNaming.transcript_prefix + str(n) + "." + contig + common.TranscriptNaming.nnic_transcript_suffix))
        genes.append(Obj(id="ENSG0001"))
        transcripts.append(Obj(id="transcript_of_something"))
        transcripts.append(Obj(id="ENST0001.2"))
        d = call(g, id_policy.ExcludingIdDistributor, FakeDB(genes=genes, transcripts=transcripts), contig)
        prev = 0
        for k in range(n_inc):
            v = call(g, d.increment)
            g.check(v > prev, "allocated numbers strictly increase")
            g.check(AND([v != n for n in nums]),
                    "a novel number never equals the number of a transcript<N> / novel_gene_*_<N> id present in the reference")
            prev = v
    return fn


def parse_gtf(g, text):
    recs = []
    for line in text.splitlines():
        if line.startswith("#") or not line.strip():
            continue
        fs = line.split("\t")
        attrs = dict(re.findall(r'(\w+) "([^"]*)";', fs[8]))
        recs.append(Obj(chr=fs[0], type=fs[2], start=g.unsentinel(fs[3]), end=g.unsentinel(fs[4]), strand=fs[6], attrs=attrs))
    return recs


def h_printer(n_models):
    """two GFFPrinters sharing one exon-id storage (transcript_models.gtf and extended_annotation.gtf of one chromosome)"""
    def fn(g):
        shims.CURRENT["g"] = g if g.symbolic else None
        st = id_policy.FeatureIdStorage(id_policy.SimpleIDDistributor())
        printers = []
        for k in range(2):
            p = transcript_printer.GFFPrinter.__new__(transcript_printer.GFFPrinter)
            p.out_gff = io.StringIO()
            p.output_r2t = False
            p.exon_id_storage = st
            p.printed_gene_ids = set()
            printers.append(p)
        models = []
        for i in range(n_models):
            ex = interval_list(g, "m%d_e" % i, 2, lo=1, gap=2)
            strand = "+" if g.bool("m%d_plus" % i) else "-"
            gene = "G%d" % g.choice("m%d_gene" % i, 2)
            models.append(TranscriptModel("chr1", strand, "T%d" % i, gene, ex, TranscriptModelType.novel_not_in_catalog))
        gi = Obj(chr_id="chr1", feature_attributes={}, sources={}, empty=lambda: True, get_gene_regions=lambda: {})
        call(g, printers[0].dump, gi, models)
        call(g, printers[1].dump, gi, list(reversed(models)))
        exon_recs = []
        for p in printers:
            recs = parse_gtf(g, p.out_gff.getvalue())
            exon_recs += [r for r in recs if r.type == "exon"]
            tr = [r for r in recs if r.type == "transcript"]
            g.check(len(tr) == n_models and len({r.attrs["transcript_id"] for r in tr}) == n_models, "each transcript id appears once per file")
            genes = [r for r in recs if r.type == "gene"]
            g.check(len({r.attrs["gene_id"] for r in genes}) == len(genes), "each gene id appears once per file")
        g.check(len(exon_recs) == 4 * n_models, "every exon is printed in both files")
        for i in range(len(exon_recs)):
            for j in range(i):
                a, b = exon_recs[i], exon_recs[j]
                same = AND(a.start == b.start, a.end == b.end, a.strand == b.strand)
                g.check(IFF(same, a.attrs["exon_id"] == b.attrs["exon_id"]),
                        "exon_id is a function of (chromosome, start, end, strand) over all printed exon lines",
                        detail={"ids": [b.attrs["exon_id"], a.attrs["exon_id"]], "strands": [b.strand, a.strand]})
    return fn


def h_fl_ids(n_paths):
    """the real construct_fl_isoforms on n distinct full-length paths of one locus (same or different intron chains, symbolic
    read counts, with/without polyA; a path with the reference chain reproduces the reference isoform): transcript ids in
    the model list are pairwise distinct"""
    from props import flblock
    import src.graph_based_model_construction as gbmc

    def fn(g):
        chains = [[(11, 30), (41, 60)], [(11, 30), (45, 60)]]
        seq = flblock.make_sequence([(11, 30), (41, 60), (45, 60)], [("GT", "AG")] * 3, 100)
        gi = Obj(chr_id="chr1", gene_strands={"G": "+"}, empty=lambda: False, all_isoforms_introns={"REF1": chains[0]}, isoform_strands={"REF1": "+"},
                 gene_id_map={"REF1": "G"}, all_isoforms_exons={"REF1": [(1, 10), (31, 40), (61, 100)]}, other_features={"REF1": []},
                 sources={"REF1": "x", "G": "x"})
        old = flblock.get_reported()
        flblock.set_reported(set())
        try:
            c = flblock.make_constructor(seq, flblock.default_params("auto"), gene_info=gi, known_introns=chains[0], reference_gene="G")
            c.profile_constructor = Obj(construct_profiles=lambda exons, polya, cage: exons)
            ref, other = flblock.StubAssigner("REF1"), flblock.StubAssigner(None)
            c.assigner = Obj(assign_to_isoform=lambda rid, exons: (ref if [(exons[k][1] + 1, exons[k + 1][0] - 1) for k in range(len(exons) - 1)] == chains[0]
                                                                   else other).assign_to_isoform(rid, exons))
            paths = []
            for i in range(n_paths):
                ci = g.choice("path%d_chain" % i, 2)
                paths.append(ci)
                flblock.add_path(c, chains[ci], 1 + i, 100 - i, g.int("path%d_reads" % i, 0, 5), polya=bool(g.bool("path%d_polya" % i)))
            call(g, c.construct_fl_isoforms)
            ids = [m.transcript_id for m in c.transcript_model_storage]
        finally:
            flblock.set_reported(old)
        g.check(len(set(ids)) == len(ids), "transcript ids of one locus are pairwise distinct", detail={"ids": ids, "path_chains": paths})
    return fn


def h_printers_share_storage(g):
    """discharges the assumption of the printer harness against the real entry point: within one chromosome run,
    transcript_models.gtf and extended_annotation.gtf are printed through ONE exon-id table (otherwise the same novel exon
    gets different ids in the two files)"""
    import os
    import shutil
    import src.dataset_processor as dp
    import src.graph_based_model_construction as gbmc
    import src.serialization as ser
    from props import c10
    with_db = bool(g.bool("run_with_annotation"))
    d = os.path.join(c10.scratch(), "c17ids")
    shutil.rmtree(d, ignore_errors=True)
    os.makedirs(d)
    saved = (dp.Fasta, dp.ReadAssignmentAggregator, dp.ReadAssignmentLoader, dp.GFFPrinter, dp.gffutils)
    dp.Fasta = lambda *a, **k: {"chr1": "ACGT" * 50}
    dp.ReadAssignmentAggregator = lambda *a, **k: c10.NoOp(read_stat_counter=dp.EnumStats(), global_counter=c10.NoOp(), transcript_model_global_counter=c10.NoOp(),
                                                           global_printer=c10.NoOp())
    dp.ReadAssignmentLoader = c10.FakeLoader
    dp.GFFPrinter = c10.RecordingPrinter
    dp.gffutils = Obj(FeatureDB=lambda path: FakeDB())
    c10.RecordingPrinter.seen = []
    from props import flblock
    old = flblock.get_reported()
    try:
        args = Obj(no_model_construction=False, reference="ref.fa", fai_file_name=None, resume=False, genedb="annotation.db" if with_db else None,
                   check_canonical=False, sqanti_output=False)
        dump = os.path.join(d, "smp.save")
        with open(dump + "_multimappers_chr1", "wb") as fh:
            ser.write_int(ser.TERMINATION_INT, fh)
        sample = Obj(out_dir=d, prefix="smp", out_t2t_tsv=os.path.join(d, "t2t.tsv"))
        call(g, dp.construct_models_in_parallel, sample, "chr1", dump, args, ["NA"])
    finally:
        dp.Fasta, dp.ReadAssignmentAggregator, dp.ReadAssignmentLoader, dp.GFFPrinter, dp.gffutils = saved
        flblock.set_reported(old)
    seen = c10.RecordingPrinter.seen
    g.check(len(seen) == (2 if with_db else 1), "a run with an annotation builds the two GTF printers of the chromosome", detail={"printers": len(seen)})
    g.check(all(x[0] is seen[0][0] for x in seen), "both GTF printers of a chromosome issue exon ids from one shared table")


def instances(tier, seed):
    q = tier == "quick"
    I = "src.id_policy:"
    out = []
    out.append(Instance("printers_share_exon_id_table", h_printers_share_storage, ["src.dataset_processor:construct_models_in_parallel"],
                        "one chromosome run of the real entry point with / without annotation (collaborators faked)", weight=5))
    for n in ((2,) if q else (2, 3)):
        out.append(Instance("fl_transcript_ids[paths=%d]" % n, h_fl_ids(n), ["src.graph_based_model_construction:GraphBasedModelConstructor.construct_fl_isoforms",
                                                                             "src.graph_based_model_construction:GraphBasedModelConstructor.get_transcript_id"],
                            "%d full-length paths (two intron chains, one of them the reference isoform's), symbolic ends and read counts" % n,
                            weight=40 * n, budget_s=900))
    for n_ref, n_calls in ([(0, 2), (1, 2), (2, 3)] if q else [(0, 2), (1, 2), (2, 3), (2, 4), (3, 3)]):
        for style in (0, 1):
            if n_ref == 0 and style == 1:
                continue
            out.append(Instance("exon_ids[ref=%d,calls=%d,%s]" % (n_ref, n_calls, ["foreign_ids", "isoquant_style_ids"][style]),
                                h_exon_ids(n_ref, n_calls, style), [I + "FeatureIdStorage.get_id", I + "SimpleIDDistributor.increment"],
                                "%d reference exons + %d queries, all coordinates/strands symbolic" % (n_ref, n_calls),
                                weight=(n_ref + 1) * 4 ** n_calls, budget_s=900))
    out.append(Instance("two_chromosomes", h_two_chromosomes, [I + "FeatureIdStorage.get_id"], "2 storages x 2 exons", weight=30))
    for n_ref, n_inc in ([(1, 2), (2, 3)] if q else [(1, 2), (2, 3), (3, 4)]):
        out.append(Instance("distributor[ref=%d,allocations=%d]" % (n_ref, n_inc), h_distributor(n_ref, n_inc),
                            [I + "ExcludingIdDistributor.__init__", I + "ExcludingIdDistributor.increment"],
                            "%d reference ids with symbolic numbers (gene or transcript form), %d allocations" % (n_ref, n_inc),
                            weight=10 * n_ref * n_inc, budget_s=600))
    for n in ((1, 2) if q else (1, 2, 3)):
        out.append(Instance("printer[models=%d]" % n, h_printer(n), ["src.transcript_printer:GFFPrinter.dump", I + "FeatureIdStorage.get_id",
                                                                    "src.transcript_printer:validate_exons"],
                            "%d two-exon models with symbolic coordinates/strand/gene, 2 printers sharing one storage" % n,
                            weight=50 * n * n, budget_s=1200))
    return out
