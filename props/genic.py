"""Shared harness: one BAM record through the real AlignmentCollector.process_genic of an annotated locus.

The alignment is a fake pysam record (reference_start / cigartuples with symbolic lengths, symbolic flags and MAPQ, no read
sequence, so no polyA tail is searched) whose exons follow an isoform of a catalogue locus; the real AlignmentInfo,
CombinedProfileConstructor, LongReadAssigner, ExonCorrector and the record assembly of process_genic run on it.
Used by C05 (a record is produced exactly when the documented filters pass), C13 (the feature profiles that the exon /
intron counters consume are attached to every record) and C12/C06 (record fields do not depend on the flag combination)."""
import src.alignment_processor as ap
import src.isoform_assignment as ia
from src.polya_finder import PolyAFinder
from src.polya_verification import PolyAFixer
from src.gene_info import StrandDetector

from props import readfam
from props.readfam import build_locus, positive_read, LOCI, CONSISTENT
from vlib import shims
from vlib.spec import AND, OR, NOT, ITE, IMPLIES, IFF, SUM, call


def setup_symbolic():
    readfam.setup_symbolic()
    shims.install([ap], ["min", "max"])


class Obj:
    def __init__(self, **kw):
        self.__dict__.update(kw)


class FakeAlignment:
    """the attributes of pysam.AlignedSegment that process_genic and its collaborators read"""
    def __init__(self, exons, secondary, supplementary, mapq, unmapped, reverse):
        self.reference_start = exons[0][0] - 1
        cig = []
        for i, (a, b) in enumerate(exons):
            if i:
                cig.append((3, a - exons[i - 1][1] - 1))
            cig.append((0, b - a + 1))
        self.cigartuples = cig
        self.reference_end = exons[-1][1]
        self.is_secondary, self.is_supplementary, self.is_reverse = secondary, supplementary, reverse
        self.mapping_quality = mapq
        self.reference_id = -1 if unmapped else 0
        self.query_name = "read_1"
        self.seq = None
        self.query_sequence = None

    def get_tag(self, tag):
        raise KeyError(tag)

    def get_aligned_pairs(self):
        return []


def make_collector(params, chr_id="chr1"):
    col = ap.AlignmentCollector.__new__(ap.AlignmentCollector)
    reference = "A" * 6000          # no informative splice-site dinucleotides: strand of ambiguous reads comes out as '.'
    col.chr_id, col.params, col.genedb, col.chr_record, col.illumina_bam = chr_id, params, None, reference, None
    col.bam_merger = Obj(bam_pairs=[(None, "a.bam")])
    col.strand_detector = StrandDetector(reference)
    col.read_groupper = Obj(get_group_id=lambda alignment, fname=None: "NA")
    col.polya_finder = PolyAFinder(params.polya_window, params.polya_fraction)
    col.polya_fixer = PolyAFixer(params)
    col.cage_finder = None
    col.alignment_stat_counter = ap.EnumStats()
    return col


def genic_params(g, preset="default"):
    p = readfam.matching_params(preset, "default_ont")
    p.count_exons = True
    p.cage, p.cage_shift, p.bam_tags = None, 50, []
    p.polya_window, p.polya_fraction = 16, 0.75
    p.no_secondary = bool(g.bool("no_secondary"))
    p.min_mapq = [None, 10][g.choice("min_mapq", 2)]
    p.inconsistent_mapq_cutoff = 5
    p.simple_alignments_mapq_cutoff = 1
    return p


def h_genic(locus, tid, i, j, preset="default"):
    def fn(g):
        params = genic_params(g, preset)
        gi = build_locus(locus, params.delta)
        exons = gi.all_isoforms_exons[tid]
        # exact splice sites, symbolic ends: the assignment itself is C01's subject, here the flags and the record assembly vary
        read = positive_read(g, exons, i, j, 0)
        secondary, supplementary = bool(g.bool("is_secondary")), bool(g.bool("is_supplementary"))
        unmapped, reverse = bool(g.bool("unmapped_flag")), bool(g.bool("is_reverse"))
        mapq = g.int("mapq", 0, 60)
        al = FakeAlignment(read, secondary, supplementary, mapq, unmapped, reverse)
        col = make_collector(params)
        # per-base error counting near a splice site needs the aligned pairs of the read: replaced by arbitrary counts (as in C14)
        errs = (g.int("indel_count", 0), g.int("mismatch_count", 0))

        class Info(ap.AlignmentInfo):
            def get_error_count(self, *a, **k):
                return errs
        saved = ap.AlignmentInfo
        ap.AlignmentInfo = Info
        try:
            out = call(g, col.process_genic, [(0, al)], gi, (read[0][0], read[-1][1]))
        finally:
            ap.AlignmentInfo = saved
        det = {"secondary": secondary, "supplementary": supplementary, "unmapped": unmapped, "no_secondary": params.no_secondary,
               "min_mapq": params.min_mapq, "records": len(out)}
        passes = NOT(OR(unmapped, supplementary, AND(params.no_secondary, secondary))) if True else None
        if params.min_mapq:
            passes = AND(passes, mapq >= params.min_mapq)
        g.check(len(out) <= 1, "one alignment yields at most one record", detail=det)
        if not out:
            # a read that follows an isoform is consistent: only the documented filters may drop it
            g.check(NOT(passes), "an alignment that passes the documented filters (mapped, not supplementary, MAPQ) is reported", detail=det)
            return
        ra = out[0]
        g.check(passes, "a filtered alignment (unmapped, supplementary, --no_secondary, MAPQ) yields no record", detail=det)
        g.check(ra.assignment_type in CONSISTENT, "a read following an isoform is assigned consistently", detail=det)
        g.check(len(ra.exons) == len(read) and AND([AND(a[0] == b[0], a[1] == b[1]) for a, b in zip(ra.exons, read)]),
                "the record carries the exons of the alignment")
        g.check(bool(ra.multimapper) == secondary and ra.chr_id == "chr1" and ra.read_id == "read_1", "record flags follow the BAM record")
        g.check(ra.mapped_strand == ("-" if reverse else "+"), "mapped strand follows the reverse flag")
        ep, ip = getattr(ra, "exon_gene_profile", None), getattr(ra, "intron_gene_profile", None)
        g.check(ep is not None and ip is not None and len(ep) == len(gi.exon_profiles.features) and len(ip) == len(gi.intron_profiles.features),
                "with --count_exons every reported record carries its exon and intron feature profiles (primary or secondary alike)",
                detail=dict(det, exon_profile=None if ep is None else len(ep), intron_profile=None if ip is None else len(ip)))
        if ip is not None and len(ip) == len(gi.intron_profiles.features):
            d = params.delta
            for f, v in zip(gi.intron_profiles.features, ip):
                hit = OR([AND(abs(r[0] - f[0]) <= d, abs(r[1] - f[1]) <= d) for r in readfam.introns_of(read)] or [False])
                g.check(IMPLIES(v == 1, hit), "an intron is marked included only if the read has it within delta")
    return fn
