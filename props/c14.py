"""C14 - corrected alignments are well-formed; junctions move only onto annotated ones."""
import io

import src.exon_corrector as exon_corrector
import src.illumina_exon_corrector as illumina
import src.assignment_io as assignment_io
import src.common as common
import src.isoform_assignment as ia
import src.transcript_printer as transcript_printer

from props import readfam
from props.readfam import build_locus, positive_read, assign, introns_of, abs_le, LOCI
from vlib import shims
from vlib.runner import Instance
from vlib.spec import AND, OR, NOT, ITE, IMPLIES, IFF, SUM, call, sorted_disjoint, interval_list

PROPERTY = "C14"
EXPLANATION = ("The real ExonCorrector runs behind the real profile constructor and assigner (so that the event lists are ones a real "
               "comparison emits) on isoform-anchored symbolic reads - following an isoform within delta, and skipping / misplacing one "
               "exon - with the six correction flags as symbolic booleans (covers every --splice_correction_strategy preset and more) and "
               "the alignment error counts as arbitrary symbolic integers; the corrected exons are rendered by the real BEDPrinter and the "
               "BED12 line is parsed back through sentinel tokens. IlluminaExonCorrector.correct_exons runs on symbolic read exons against "
               "a symbolic list of short-read introns.")
STUBS = ["alignment_info -> fake carrying read_exons/read_start/read_end/combined_profile; get_error_count returns two arbitrary non-negative "
         "symbolic ints (its contract; the aligned-pairs walk over pysam data is not encoded)",
         "BED text: %d fields are sentinel tokens mapped back to the symbolic terms"]
ASSUMPTIONS = ["annotations are the catalogue loci of C01", "short-read correction: read exons are at least 10 bp long", "read shapes: following an isoform sub-chain within delta; the same with one inner exon "
               "dropped or shortened (misalignment shapes)", "short-read introns: sorted list of <=3 disjoint intervals separated by at least one exonic base"]
OUTSIDE = ["get_error_count's use of aligned pairs (pysam)", "coordinates inside the chromosome (needs the FASTA index)"]


def setup_symbolic():
    readfam.setup_symbolic()
    shims.install([exon_corrector, illumina, transcript_printer], ["min", "max"])


class Obj:
    def __init__(self, **kw):
        self.__dict__.update(kw)


FLAGS = ["correct_fuzzy_junctions", "correct_intron_shifts", "correct_skipped_exons", "correct_terminal_exons",
         "correct_fake_terminal_exons", "correct_microintron_retention"]


def parse_bed(g, line):
    f = line.rstrip("\n").split("\t")
    sizes = [g.unsentinel(x) for x in f[10].split(",")]
    starts = [g.unsentinel(x) for x in f[11].split(",")]
    return Obj(chrom=f[0], start=g.unsentinel(f[1]), end=g.unsentinel(f[2]), name=f[3], strand=f[5], thick_start=g.unsentinel(f[6]),
               thick_end=g.unsentinel(f[7]), count=int(f[9]), sizes=sizes, starts=starts)


def check_bed12(g, rec, exons, what):
    n = rec.count
    g.check(n == len(rec.sizes) and n == len(rec.starts) and n >= 1, "BED12: blockCount matches the lists (%s)" % what)
    g.check(AND([s > 0 for s in rec.sizes]), "BED12: positive block sizes (%s)" % what)
    g.check(rec.starts[0] == 0, "BED12: first block starts at chromStart (%s)" % what)
    g.check(AND([rec.starts[i] + rec.sizes[i] < rec.starts[i + 1] + 1 for i in range(n - 1)] or [True]),
            "BED12: ascending non-overlapping blocks (%s)" % what)
    g.check(rec.start + rec.starts[-1] + rec.sizes[-1] == rec.end, "BED12: last block ends at chromEnd (%s)" % what)
    g.check(rec.start >= 0, "BED12: chromStart inside the chromosome (%s)" % what)
    g.check(AND([rec.start + rec.starts[i] == exons[i][0] - 1 for i in range(n)] + [rec.sizes[i] == exons[i][1] - exons[i][0] + 1 for i in range(n)]),
            "BED12 blocks = exon list (%s)" % what)


def h_correct(locus, tid, i, j, preset, shape, strategy=None):
    def fn(g):
        g.batch = True
        shims.CURRENT["g"] = g if g.symbolic else None
        params = readfam.matching_params(preset, strategy or "none")
        flags = {}
        for f in FLAGS:
            flags[f] = g.bool(f) if strategy is None else getattr(params, f)
            setattr(params, f, flags[f])
        gi = build_locus(locus, params.delta)
        exons = gi.all_isoforms_exons[tid]
        d = params.delta
        read = positive_read(g, exons, i, j, d)
        if shape == "drop_inner" and len(read) >= 3:
            read = [read[0]] + read[2:]
        elif shape == "short_inner" and len(read) >= 3:
            cut = g.int("inner_exon_cut", 1, 40)
            read = [read[0], (read[1][0] + cut, read[1][1])] + read[2:]
            g.add(read[1][0] + 5 <= read[1][1])
        elif shape in ("misplaced_last", "misplaced_first") and len(read) >= 3:
            # the terminal exon aligned further out (not overlapping its annotated place), with (almost) its annotated length: the assigner
            # calls it a misaligned terminal exon
            dl = g.int("terminal_exon_length_difference", -8, 8)
            tl = (exons[-1][1] - exons[-1][0]) if shape == "misplaced_last" else (exons[0][1] - exons[0][0])
            off = g.int("terminal_exon_offset", tl + 20, tl + 200)
            if shape == "misplaced_last":
                a_ = exons[-1][0] + off
                read = read[:-1] + [(a_, a_ + (exons[-1][1] - exons[-1][0]) + dl)]
            else:
                b_ = exons[0][1] - off
                read = [(b_ - (exons[0][1] - exons[0][0]) - dl, b_)] + read[1:]
                g.add(read[0][0] >= 1)
        elif shape == "two_novel_inner" and len(read) >= 2:
            # two novel exons inside the first intron: three read introns against one isoform intron
            a0, b0 = exons[0][1] + 1, exons[1][0] - 1
            o1, o2 = g.int("novel_exon1_offset", 0, 60), g.int("novel_exon2_offset", 0, 60)
            third = (b0 - a0) // 3
            e1 = (a0 + 80 + o1, a0 + 80 + o1 + 60)
            e2 = (a0 + third + 120 + o2, a0 + third + 120 + o2 + 60)
            read = [read[0], e1, e2] + read[1:]
        prof, ra = assign(g, gi, params, read)
        errs = [g.int("indel_count", 0), g.int("mismatch_count", 0)]
        ai = Obj(read_exons=list(read), read_start=read[0][0], read_end=read[-1][1], combined_profile=prof,
                 get_error_count=lambda *a, **k: (errs[0], errs[1]))
        corr = exon_corrector.ExonCorrector(gi, params, None)
        out = call(g, corr.correct_assigned_read, ai, ra)
        # BED rendering of both the original and the corrected alignment
        ra.gene_info, ra.mapped_strand, ra.exons, ra.corrected_exons, ra.read_id = gi, "+", list(read), out, "read"
        for corrected in (True, False):
            pr = assignment_io.BEDPrinter.__new__(assignment_io.BEDPrinter)
            pr.output_file = io.StringIO()
            pr.print_corrected = corrected
            pr.assignment_checker = Obj(check=lambda r: True)
            call(g, pr.add_read_info, ra)
            rec = parse_bed(g, pr.output_file.getvalue())
            check_bed12(g, rec, out if corrected else read, "corrected" if corrected else "original")
        g.check(sorted_disjoint(out, gap=2) if len(out) > 1 else (out[0][0] <= out[0][1]), "corrected exons ascending, separated by introns")
        MES_ = ia.MatchEventSubtype
        evs = [e.event_type for m_ in ra.isoform_matches for e in m_.match_subclassifications]
        has_fake = any(e in (MES_.fake_terminal_exon_left, MES_.fake_terminal_exon_right) for e in evs)
        has_misplaced = any(e in (MES_.terminal_exon_misalignment_left, MES_.terminal_exon_misalignment_right) for e in evs)
        # a terminal-exon correction "applies" when its flag is on AND the assigner reported the matching event for this read
        term = OR(AND(flags["correct_terminal_exons"], has_misplaced), AND(flags["correct_fake_terminal_exons"], has_fake))
        g.check(IMPLIES(NOT(term), AND(out[0][0] == read[0][0], out[-1][1] == read[-1][1])),
                "start and end unchanged unless a terminal-exon correction that the strategy enables applies to the read",
                detail={"events": [e.name for e in evs], "flags": {k_: bool(v_) if isinstance(v_, bool) else str(v_) for k_, v_ in flags.items()}})
        all_off = AND([NOT(flags[f]) for f in FLAGS])
        same = len(out) == len(read) and AND([AND(a[0] == b[0], a[1] == b[1]) for a, b in zip(out, read)])
        g.check(IMPLIES(all_off, same), "with every correction disabled the corrected alignment equals the input")
        # every splice site of the result: own site, site of an annotated intron within delta of a read intron, or a site
        # of an intron of the assigned isoform
        own_l = [x[0] for x in introns_of(read)]
        own_r = [x[1] for x in introns_of(read)]
        ann = gi.intron_profiles.features
        iso = gi.all_isoforms_introns.get(ra.isoform_matches[0].assigned_transcript, []) if ra.isoform_matches else []
        ri = introns_of(read)
        for (l, r) in introns_of(out):
            okl = OR([l == x for x in own_l] + [AND(l == a[0], OR([AND(abs_le(a[0] - q[0], d), abs_le(a[1] - q[1], d)) for q in ri] or [False])) for a in ann] +
                     [l == a[0] for a in iso])
            okr = OR([r == x for x in own_r] + [AND(r == a[1], OR([AND(abs_le(a[0] - q[0], d), abs_le(a[1] - q[1], d)) for q in ri] or [False])) for a in ann] +
                     [r == a[1] for a in iso])
            g.check(AND(okl, okr), "every corrected splice site is the read's own, an annotated site within delta, or the assigned isoform's")
    return fn


def h_correct_history(locus, tid, preset, strategy):
    """two reads of one locus through ONE ExonCorrector (process_genic builds one per locus): the corrected alignment of the second
    read equals what a fresh corrector gives"""
    def fn(g):
        shims.CURRENT["g"] = g if g.symbolic else None
        params = readfam.matching_params(preset, strategy)
        gi = build_locus(locus, params.delta)
        exons = gi.all_isoforms_exons[tid]
        d = params.delta
        second = positive_read(g, exons, 0, len(exons) - 1, d)
        g.add(AND(second[0][0] == exons[0][0], second[-1][1] == exons[-1][1]))
        # the first read: same isoform, the first donor at another offset within delta
        j1 = g.int("first_read_donor_jitter", -d, d)
        first = [(exons[0][0], exons[0][1] + j1)] + [tuple(x) for x in exons[1:]]
        errs = {}

        def info(read, tag):
            prof, ra = assign(g, gi, params, read)
            errs[tag] = (g.int("%s_indel_count" % tag, 0, 2), g.int("%s_mismatch_count" % tag, 0, 3))
            return Obj(read_exons=list(read), read_start=read[0][0], read_end=read[-1][1], combined_profile=prof,
                       get_error_count=lambda *a, **k: errs[tag]), ra
        corr = exon_corrector.ExonCorrector(gi, params, None)
        ai1, ra1 = info(first, "first")
        call(g, corr.correct_assigned_read, ai1, ra1)
        ai2, ra2 = info(second, "second")
        out = call(g, corr.correct_assigned_read, ai2, ra2)
        fresh = call(g, exon_corrector.ExonCorrector(gi, params, None).correct_assigned_read, ai2, ra2)
        g.check(len(out) == len(fresh) and AND([AND(a[0] == b[0], a[1] == b[1]) for a, b in zip(out, fresh)]),
                "the corrected alignment of a read does not depend on the reads corrected before it",
                detail={"after_another_read": str(out), "fresh": str(fresh)})
    return fn


def h_illumina(n_exons, n_short):
    def fn(g):
        read = interval_list(g, "read_exon", n_exons, lo=1, gap=2, minlen=10)
        short = interval_list(g, "short_intron", n_short, lo=1, gap=2, minlen=2) if n_short else []
        c = illumina.IlluminaExonCorrector.from_data(list(short))
        out = call(g, c.correct_exons, read)
        ex = g.excl({"C14-illumina-intron-over-read-end": OR([OR(s_[0] <= read[0][0], s_[1] >= read[-1][1]) for s_ in short] or [False])})
        g.check(len(out) >= 1, "short-read correction returns a non-empty exon list", exclude=ex)
        if len(out) == 0:
            return
        g.check(AND(out[0][0] == read[0][0], out[-1][1] == read[-1][1]), "short-read correction keeps the read's start and end", exclude=ex)
        ok = sorted_disjoint(out, gap=2) if len(out) > 1 else (out[0][0] <= out[0][1])
        g.check(ok, "short-read corrected exons are ascending and non-overlapping", exclude=ex)
        own = introns_of(read)
        # site level, as the property states it (an output intron may combine a read site with a short-read site when the
        # corrector inserts overlapping short-read introns)
        for (l, r) in introns_of(out):
            g.check(AND(OR([l == a[0] for a in own + list(short)]), OR([r == a[1] for a in own + list(short)])),
                    "every splice site after short-read correction is a site of a read intron or of a short-read intron", exclude=ex)
        if not short:
            g.check(len(out) == len(read) and AND([AND(a[0] == b[0], a[1] == b[1]) for a, b in zip(out, read)]), "no short-read introns: unchanged")
    return fn


def h_documented_presets(g):
    """the three presets whose content docs/cmd.md states: none (no correction), all (every correction), conservative_ont
    (only incorrect splice junctions and skipped exons are fixed: no terminal-exon correction, so read ends never move)"""
    name = ["none", "all", "conservative_ont"][g.choice("preset", 3)]
    p = readfam.matching_params("default", name)
    flags = {f: bool(getattr(p, f)) for f in FLAGS}
    if name == "none":
        g.check(not any(flags.values()), "preset none enables no correction", detail=flags)
    elif name == "all":
        g.check(all(flags.values()), "preset all enables every correction", detail=flags)
    else:
        g.check(flags["correct_skipped_exons"] and (flags["correct_fuzzy_junctions"] or flags["correct_intron_shifts"]) and
                not flags["correct_terminal_exons"] and not flags["correct_fake_terminal_exons"] and not flags["correct_microintron_retention"],
                "preset conservative_ont fixes only incorrect splice junctions and skipped exons", detail=flags)


def instances(tier, seed):
    q = tier == "quick"
    F = ["src.exon_corrector:ExonCorrector.correct_assigned_read", "src.exon_corrector:ExonCorrector.correct_misalignments",
         "src.exon_corrector:ExonCorrector.process_events", "src.long_read_profiles:OverlappingFeaturesProfileConstructor.match_genomic_features",
         "src.assignment_io:BEDPrinter.add_read_info", "src.long_read_assigner:LongReadAssigner.assign_to_isoform",
         "src.junction_comparator:JunctionComparator.compare_junctions", "isoquant:set_splice_correction_options"]
    out = [Instance("documented_presets", h_documented_presets, ["isoquant:set_splice_correction_options"],
                    "the presets described in docs/cmd.md (none, all, conservative_ont)", weight=1)]
    presets = ["default"] if q else ["precise", "default", "loose"]
    loci = ["skip", "micro_exon"] if q else sorted(LOCI)
    strategies = ["none", "default_ont", "all"] if q else ["none", "default_pacbio", "conservative_ont", "default_ont", "all", "assembly"]
    for li, locus in enumerate(loci):
        for preset in presets:
            for ti, (tid, gid, strand, exons) in enumerate(LOCI[locus]):
                n = len(exons)
                if n < 2:
                    continue
                shapes = ["follow"] + (["two_novel_inner"] if (not q or (locus, tid) == ("skip", "T2")) else []) + \
                    (["drop_inner", "short_inner"] if n >= 3 else []) + \
                    (["misplaced_last", "misplaced_first"] if n >= 3 and (not q or (locus, tid) == ("skip", "T1")) else [])
                for si, shape in enumerate(shapes):
                    for strategy in ([["none", "default_ont"][(seed + li + ti + si) % 2], "all"] if q else strategies):
                        out.append(Instance("correct[%s,%s,%s,%s,%s]" % (locus, tid, shape, preset, strategy),
                                            h_correct(locus, tid, 0, n - 1, preset, shape, strategy), F,
                                            "locus %s, read %s %s, correction strategy %s, symbolic error counts" % (locus, shape, tid, strategy),
                                            weight=20 * n, budget_s=1500))
                    if not q and preset == "default" and locus in ("skip", "micro_exon"):
                        out.append(Instance("correct[%s,%s,%s,%s,symbolic flags]" % (locus, tid, shape, preset),
                                            h_correct(locus, tid, 0, n - 1, preset, shape, None), F,
                                            "locus %s, read %s %s, 6 symbolic correction flags (every combination)" % (locus, shape, tid),
                                            weight=500 * n, budget_s=3600))
    for locus, tid in ([("skip", "T1")] if q else [(l, LOCI[l][0][0]) for l in sorted(LOCI) if len(LOCI[l][0][3]) > 1]):
        for strategy in (["default_ont"] if q else ["default_ont", "all"]):
            out.append(Instance("corrector_history[%s,%s,%s]" % (locus, tid, strategy), h_correct_history(locus, tid, "default", strategy), F[:3],
                                "locus %s: two reads of %s with different junction offsets and error counts through one corrector" % (locus, tid),
                                weight=80, budget_s=900))
    for ne, ns in ([(2, 1), (2, 2), (3, 1)] if q else [(2, 0), (2, 1), (2, 2), (3, 1), (3, 2), (2, 3)]):
        out.append(Instance("illumina[exons=%d,short=%d]" % (ne, ns), h_illumina(ne, ns), ["src.illumina_exon_corrector:IlluminaExonCorrector.correct_exons",
                                                                                          "src.common:get_exons"],
                            "%d read exons and %d short-read introns, all coordinates symbolic" % (ne, ns), weight=30 * ne * (ns + 1), budget_s=1500))
    return out
