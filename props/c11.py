"""C11 - results are equivariant under coordinate translation and strand reflection."""
import src.common as common
import src.polya_verification as pv
import src.isoform_assignment as ia
import src.junction_comparator as jc
from src.polya_finder import PolyAInfo

from props import readfam
from props.readfam import build_locus, positive_read, assign, LOCI, CONSISTENT
from vlib import shims
from vlib.runner import Instance
from vlib.spec import AND, OR, NOT, ITE, IMPLIES, IFF, SUM, call, interval_list, sorted_disjoint

PROPERTY = "C11"
MES = ia.MatchEventSubtype
EXPLANATION = ("Differential symbolic execution: the real function runs on a symbolic input x and on its image T(x) in the same path "
               "exploration and z3 decides f(T(x)) = T(f(x)). T is the reflection x -> M - x (lists reversed, strands and polyA/polyT "
               "swapped, left/right event names swapped through a table derived from the enum names) for the mirrored code pairs and "
               "for the whole profile-construction + assignment pipeline on mirrored catalogue loci with isoform-anchored symbolic "
               "reads; and the translation x -> x + k with a symbolic k for the coordinate primitives and the CIGAR walk.")
STUBS = ["as C01/C19/C16 (term-building shims, fake alignment objects)"]
ASSUMPTIONS = ["reflection constant M chosen so that all mirrored coordinates stay positive", "catalogue loci of C01 and their mirror images",
               "assignment-level comparison: assignment type and reported isoform set (the property's level), plus the left/right-swapped "
               "multiset of event types for the pairs where the property requires it"]
OUTSIDE = ["whole-run output comparison", "choice of representatives among near-identical noisy junctions (excluded by the property)",
           "translation of whole loci by a symbolic k (annotations are hashed, hence concrete); split_coverage_regions translation by bin multiples"]

M = 100000


def setup_symbolic():
    readfam.setup_symbolic()
    from props import c05
    c05.setup_symbolic()


def mirror_name(n):
    if n.endswith("_left"):
        return n[:-5] + "_right"
    if n.endswith("_right"):
        return n[:-6] + "_left"
    if "_left_" in n:
        return n.replace("_left_", "_right_")
    if "_right_" in n:
        return n.replace("_right_", "_left_")
    return n


MIRROR_EVENT = {m: MES[mirror_name(m.name)] for m in MES}


def mir(iv):
    return (M - iv[1], M - iv[0])


def mir_list(l):
    return [mir(x) for x in reversed(l)]


def mpos(p):
    """mirror of a position; -1 (absent) stays -1"""
    return ITE(p == -1, -1, M - p)


class Params:
    pass


def h_counts(n):
    def fn(g):
        exons = interval_list(g, "exon", n, lo=1, gap=2)
        g.add(exons[-1][1] < M - 10)
        p = g.int("internal_polya", -1, M - 1)
        g.add(p != 0)
        par = Params()
        par.max_fake_terminal_exon_len = g.int("max_fake_terminal_exon_len", 0, 100)
        fx = pv.PolyAFixer(par)
        a = call(g, fx.count_polya_exons, exons, p)
        b = call(g, fx.count_polyt_exons, mir_list(exons), mpos(p))
        g.check(a == b, "count_polya_exons(x) = count_polyt_exons(mirror x)")
        k = g.choice("removed", n)
        q = g.int("polya_pos", -1, M - 1)
        g.add(q != 0)
        s1 = call(g, pv.shift_polya, exons, k, q)
        s2 = call(g, pv.shift_polyt, mir_list(exons), k, mpos(q))
        g.check(mpos(s1) == s2, "shift_polya(x) mirrors shift_polyt(mirror x)")
    return fn


def h_search(n):
    def fn(g):
        l = interval_list(g, "iv", n, lo=1)
        g.add(l[-1][1] < M - 10)
        pos = g.int("pos", 1, M - 1)
        a = call(g, common.interval_bin_search, l, pos)
        b = call(g, common.interval_bin_search_rev, mir_list(l), M - pos)
        g.check(ITE_b(a == -1, b == -1, b == n - 1 - a), "interval_bin_search(x) mirrors interval_bin_search_rev(mirror x)")
        s1 = call(g, common.sum_intervals_to_point, l, pos)
        s2 = call(g, common.sum_intervals_from_point, mir_list(l), M - pos)
        g.check(s1 == s2, "sum_intervals_to_point(x) = sum_intervals_from_point(mirror x)")
    return fn


def ITE_b(c, a, b):
    return AND(IMPLIES(c, a), IMPLIES(NOT(c), b))


def verifier_params(g):
    par = Params()
    par.max_fake_terminal_exon_len = 40
    par.max_missed_exon_len = 100
    par.delta = 6
    par.apa_delta = 50
    return par


def ev_key(e, n_iso_exons, mirrored):
    t = MIRROR_EVENT[e.event_type] if mirrored else e.event_type
    reg = e.isoform_region
    if mirrored and reg != ia.SupplementaryMatchConstants.undefined_region:
        reg = (n_iso_exons - 2 - reg[1], n_iso_exons - 2 - reg[0])
    return (t.name, reg)


def h_ref_exons(n):
    def fn(g):
        iso = interval_list(g, "iso_exon", n, lo=1, gap=2)
        g.add(iso[-1][1] < M - 10)
        ext = g.int("external_polya", -1, M - 1)
        inte = g.int("internal_polya", -1, M - 1)
        g.add(ext != 0)
        g.add(inte != 0)
        g.assume(OR(ext != -1, inte != -1))
        v = pv.PolyAVerifier.__new__(pv.PolyAVerifier)
        v.params = verifier_params(g)
        ev1, e1, i1 = call(g, v.detect_reference_exons_beyond_polya, iso, ext, inte, [])
        ev2, e2, i2 = call(g, v.detect_reference_exons_before_polyt, mir_list(iso), mpos(ext), mpos(inte), [])
        g.check(AND(mpos(e1) == e2, mpos(i1) == i2), "detect_reference_exons_beyond_polya mirrors ..._before_polyt (positions)",
                exclude=g.excl({"C11-absent-tail-position-in-distance": AND(OR(ext == -1, inte == -1), OR(iso[0][1] <= 150, iso[-1][0] >= M - 150))}))
        k1 = sorted(ev_key(e, n, True) for e in ev1)
        k2 = sorted(ev_key(e, n, False) for e in ev2)
        g.check(k1 == k2, "detect_reference_exons_beyond_polya mirrors ..._before_polyt (events)", detail={"polya": str(k1), "polyt": str(k2)},
                exclude=g.excl({"C11-absent-tail-position-in-distance": AND(OR(ext == -1, inte == -1), OR(iso[0][1] <= 150, iso[-1][0] >= M - 150))}))
    return fn


def h_verify(n_iso, n_read):
    def fn(g):
        iso = interval_list(g, "iso_exon", n_iso, lo=1, gap=2)
        read = interval_list(g, "read_exon", n_read, lo=1, gap=2)
        g.add(iso[-1][1] < M - 10)
        g.add(read[-1][1] < M - 10)
        ext = g.int("external_polya", -1, M - 1)
        inte = g.int("internal_polya", -1, M - 1)
        g.add(ext != 0)
        g.add(inte != 0)
        g.assume(OR(ext != -1, inte != -1))
        v = pv.PolyAVerifier.__new__(pv.PolyAVerifier)
        v.params = verifier_params(g)
        v.polya_fixer = pv.PolyAFixer(v.params)
        start_events = [[], [MES.exon_elongation_right], [MES.fake_terminal_exon_right], [MES.major_exon_elongation_right]][g.choice("prior_events", 4 if n_read > 1 else 2)]
        e1 = call(g, v.verify_polya, iso, read, PolyAInfo(ext, -1, inte, -1), [ia.MatchEvent(t) for t in start_events])
        e2 = call(g, v.verify_polyt, mir_list(iso), mir_list(read), PolyAInfo(-1, mpos(ext), -1, mpos(inte)),
                  [ia.MatchEvent(MIRROR_EVENT[t]) for t in start_events])
        k1 = sorted(MIRROR_EVENT[e.event_type].name for e in e1)
        k2 = sorted(e.event_type.name for e in e2)
        g.check(k1 == k2, "verify_polya mirrors verify_polyt (event types)", detail={"polya": str(k1), "polyt": str(k2)},
                exclude=g.excl({"C11-absent-tail-position-in-distance": AND(OR(ext == -1, inte == -1), OR(iso[0][1] <= 150, iso[-1][0] >= M - 150))}))
    return fn


def mirror_models(models):
    flip = {"+": "-", "-": "+", ".": "."}
    return [(t, gid, flip[s], mir_list(ex)) for t, gid, s, ex in models]


# loci used by the mirrored assignment only: an isoform that ends well inside the span of another one, so that a read of the
# longer one overruns the shorter one's end (left / right overhang terms of the candidate selection)
EXTRA_LOCI = {
    "overrun": [("T0", "G1", "-", [(1000, 1134), (2330, 2629), (4579, 4869)]),
                ("T1", "G1", "-", [(1000, 1149), (2159, 2234), (3618, 3689), (3770, 3854), (4020, 4179), (4329, 4429)])],
    "overrun_left": [("T0", "G1", "+", [(1000, 1290), (3240, 3539), (4735, 4869)]),
                     ("T1", "G1", "+", [(1440, 1540), (1690, 1849), (2015, 2099), (2180, 2251), (3635, 3710), (4720, 4869)])],
}
ALL_LOCI = dict(LOCI, **EXTRA_LOCI)


def h_assign_mirror(locus, tid, i, j, preset, shape):
    def fn(g):
        params = readfam.matching_params(preset)
        gi = build_locus(locus, params.delta, ALL_LOCI[locus])
        gim = build_locus(locus, params.delta, mirror_models(ALL_LOCI[locus]))
        exons = gi.all_isoforms_exons[tid]
        slack = 0
        read = positive_read(g, exons, i, j, params.delta)
        if shape == "elongated_left":
            e = g.int("left_elongation", 30, 320)
            read = [(exons[0][0] - e, read[0][1])] + read[1:]
        elif shape == "elongated_right":
            e = g.int("right_elongation", 30, 320)
            read = read[:-1] + [(read[-1][0], exons[-1][1] + e)]
        elif shape == "drop_inner":
            read = [read[0]] + read[2:]
        elif shape == "shifted_site":
            e = g.int("site_shift", 7, 70)
            if len(read) > 1:
                read = [(read[0][0], read[0][1] + e)] + read[1:]
                g.add(read[0][1] + 20 < read[1][0])
        use_tail = bool(g.bool("polya_tail_at_read_end"))
        info = PolyAInfo(read[-1][1] + 1, -1, -1, -1) if use_tail else PolyAInfo(-1, -1, -1, -1)
        infom = PolyAInfo(-1, M - (read[-1][1] + 1), -1, -1) if use_tail else PolyAInfo(-1, -1, -1, -1)
        _, ra = assign(g, gi, params, read, info)
        _, rm = assign(g, gim, params, mir_list(read), infom)
        t1, t2 = ra.assignment_type, rm.assignment_type
        s1 = sorted(m.assigned_transcript for m in ra.isoform_matches if m.assigned_transcript)
        s2 = sorted(m.assigned_transcript for m in rm.isoform_matches if m.assigned_transcript)
        det = {"locus": locus, "isoform": tid, "shape": shape, "forward": [getattr(t1, "name", str(t1)), s1], "mirrored": [getattr(t2, "name", str(t2)), s2]}
        g.check(t1 == t2, "mirrored input keeps the assignment type", detail=det)
        g.check(s1 == s2, "mirrored input keeps the reported isoform set", detail=det)
    return fn


def h_translate(n1, n2):
    def fn(g):
        k = g.int("shift_k", 0)
        l1 = interval_list(g, "a", n1, lo=1)
        l2 = interval_list(g, "b", n2, lo=1)
        sh = lambda l: [(a + k, b + k) for a, b in l]  # noqa
        u = call(g, common.merge_ranges, l1, l2)
        v = call(g, common.merge_ranges, sh(l1), sh(l2))
        g.check(len(u) == len(v) and AND([AND(x[0] + k == y[0], x[1] + k == y[1]) for x, y in zip(u, v)]), "merge_ranges commutes with translation")
        pos = g.int("pos")
        g.check(call(g, common.sum_intervals_to_point, l1, pos) == call(g, common.sum_intervals_to_point, sh(l1), pos + k),
                "sum_intervals_to_point commutes with translation")
        g.check(call(g, common.interval_bin_search, l1, pos) == call(g, common.interval_bin_search, sh(l1), pos + k),
                "interval_bin_search commutes with translation")
        j = call(g, common.junctions_from_blocks, l1)
        j2 = call(g, common.junctions_from_blocks, sh(l1))
        g.check(len(j) == len(j2) and AND([AND(x[0] + k == y[0], x[1] + k == y[1]) for x, y in zip(j, j2)] or [True]),
                "junctions_from_blocks commutes with translation")
    return fn


def h_translate_cigar(ops):
    def fn(g):
        k = g.int("shift_k", 0)
        rs = g.int("ref_start", 0)
        lens = [g.int("len%d" % i, 1) for i in range(len(ops))]
        a = call(g, common.get_read_blocks, rs, list(zip(ops, lens)))
        b = call(g, common.get_read_blocks, rs + k, list(zip(ops, lens)))
        g.check(len(a[0]) == len(b[0]) and AND([AND(x[0] + k == y[0], x[1] + k == y[1]) for x, y in zip(a[0], b[0])] or [True]),
                "exons of a shifted alignment are the shifted exons")
        g.check(len(a[1]) == len(b[1]) and AND([AND(x[0] == y[0], x[1] == y[1]) for x, y in zip(a[1], b[1])] or [True]), "read blocks do not depend on the shift")
    return fn


def h_regions_translate(n, max_len):
    """region cutting under translation (scaled constants, as C05): a locus below the splitting thresholds is processed as ONE
    region at every offset k; a locus that is split is cut at the same places when k is a multiple of the coverage bin"""
    from props import c05

    def fn(g):
        als, prev = [], None
        for i in range(n):
            s_ = g.int("start%d" % i, 0, 11)
            ln = g.int("length%d" % i, 1, max_len)
            if prev is not None:
                g.add(prev <= s_)
            prev = s_
            als.append((s_, s_ + ln))
        any_k = g.int("shift", 0, 9)
        arbitrary = bool(g.bool("shift_is_arbitrary"))
        k = any_k if arbitrary else 4 * g.int("shift_in_bins", 0, 3)
        with c05.Scaled():
            res = []
            for off in (0, k):
                recs = [c05.Al(i, a + off, b + off) for i, (a, b) in enumerate(als)]
                col, delivered = call(g, c05.run_collector, recs, bool(g.bool("high_memory")))
                res.append([(r, sorted(x.i for x in lst)) for r, lst in delivered])
            below = AND(max([b for _, b in als]) - als[0][0] < c05.ap.AlignmentCollector.MAX_REGION_LEN, n < c05.ap.AlignmentCollector.MIN_READS_TO_SPLIT)
        a, b = res
        # arbitrary shifts are claimed only for loci below the splitting thresholds (in the scaled model: one alignment shorter than 8)
        g.assume(OR(not arbitrary, below))
        same = len(a) == len(b) and AND([AND(x[0][0] + k == y[0][0], x[0][1] + k == y[0][1]) for x, y in zip(a, b)] or [True]) and \
            all(x[1] == y[1] for x, y in zip(a, b))
        g.check(same, "translated alignments are cut into the translated regions with the same members", detail={"original": str(a), "translated": str(b)})
    return fn


def revcomp(sq):
    return sq[::-1].translate(str.maketrans("ACGTacgt", "TGCAtgca"))


POLYA_READS = [
    # (aligned body, soft-clipped tail): external tails of different length / purity, a tail that begins inside the aligned part,
    # an A-rich 3' end without clipping (internal tail), no tail at all
    ("ACGTTGCA" * 8, "A" * 30), ("ACGTTGCA" * 8, "A" * 20), ("ACGTTGCA" * 8, "A" * 12 + "C" + "A" * 14), ("ACGTTGCA" * 6 + "AAAAAAAAAAAA", "A" * 25),
    ("ACGTTGCA" * 6 + "ACAAAAAAAAAAAAAAAAAAAAAAAAAA", ""), ("ACGTTGCA" * 8, "CCGT" * 6), ("ACGTTGCA" * 8, "GG" + "A" * 28), ("ACGTTGCA" * 8, ""),
]


class SeqAlignment:
    def __init__(self, ref_start, body, head="", tail=""):
        self.reference_start = ref_start                       # 0-based
        self.reference_end = ref_start + len(body)             # 0-based, exclusive
        self.seq = head + body + tail
        self.query_sequence = self.seq
        self.cigartuples = ([(4, len(head))] if head else []) + [(0, len(body))] + ([(4, len(tail))] if tail else [])
        self.query_name = "r"


def h_polya_finder(g):
    """PolyAFinder.detect_polya on an alignment with a polyA tail and on its reverse complement (polyT head): the four reported
    positions are mirror images.  Coordinates: 1-based closed, mirror x -> MF - x."""
    from src.polya_finder import PolyAFinder
    body, tail = POLYA_READS[g.choice("read", len(POLYA_READS))]
    MF = 10 ** 6
    s0 = g.int("reference_start", 100, 5000)
    fwd = SeqAlignment(s0, body, "", tail)
    # the aligned interval [s0+1, s0+len] (1-based) mirrors to [MF-s0-len, MF-s0-1]
    rev = SeqAlignment(MF - s0 - len(body) - 1, revcomp(body), revcomp(tail), "")
    finder = PolyAFinder(16, 0.75)
    a, b = call(g, finder.detect_polya, fwd), call(g, finder.detect_polya, rev)

    def mirrored(p, q, what):
        exp = ITE(p == -1, -1, MF - p) if not isinstance(p, int) else (-1 if p == -1 else MF - p)
        # known finding: tail positions are 0-based coordinates compared with 1-based ones, which puts the polyT head 2 bp further away
        # (1 bp when the tail begins inside the aligned part: the two case analyses `pos >= mapped end` / `pos <= mapped start` are shifted by one)
        ex = g.excl({"C11-polyt-position-two-bases-off": AND(p != -1, q != -1, q >= exp - 2, q <= exp + 2)})
        g.check(q == exp, "polyT position of the reverse-complemented alignment = mirror image of the polyA position (%s)" % what, exclude=ex,
                detail={"read": [body[-12:], tail[:12]], "polya": repr(p), "polyt_of_mirror": repr(q)})
    mirrored(a.external_polya_pos, b.external_polyt_pos, "external")
    mirrored(a.internal_polya_pos, b.internal_polyt_pos, "internal")
    g.check(AND(a.external_polyt_pos == -1, a.internal_polyt_pos == -1, b.external_polya_pos == -1, b.internal_polya_pos == -1),
            "no tail is reported at the end that has none")


class ListSet:
    """stand-in for the vertex sets of the intron graph: iterates in the order given (set iteration order depends on the
    hash of (type, position), i.e. on the absolute coordinate: it is arbitrary and changes under translation)"""
    def __init__(self, l):
        self.l = list(l)

    def __iter__(self):
        return iter(self.l)

    def __len__(self):
        return len(self.l)


def h_thread(n):
    """IntronPathProcessor.thread_ends / thread_starts on a directly constructed graph neighbourhood: n terminal / intron
    vertices after one intron.  (a) the vertex chosen does not depend on the iteration order of the vertex set (translation
    changes hash order); (b) thread_starts on the mirror image returns the mirror of what thread_ends returns."""
    import itertools
    import src.graph_based_model_construction as gbmc
    import src.intron_graph as ig
    perms = list(itertools.permutations(range(n)))

    def fn(g):
        intron = (5000, 6000)
        apa = g.int("apa_delta", 0, 60)
        delta = g.int("delta", 0, 12)
        kinds = [g.choice("vertex%d_kind" % i, 3) for i in range(n)]          # polyA, read end, next intron
        pos = [g.int("vertex%d_pos" % i, 6002, 9000) for i in range(n)]
        for a_, b_ in itertools.combinations(range(n), 2):
            g.add(pos[a_] != pos[b_])
        fwd, rev = [], []
        for i in range(n):
            if kinds[i] == 0:
                fwd.append((ig.VERTEX_polya, pos[i]))
                rev.append((ig.VERTEX_polyt, M - pos[i]))
            elif kinds[i] == 1:
                fwd.append((ig.VERTEX_read_end, pos[i]))
                rev.append((ig.VERTEX_read_start, M - pos[i]))
            else:
                fwd.append((pos[i], pos[i] + 500))
                rev.append((M - pos[i] - 500, M - pos[i]))
        end = g.int("read_end", 6001, 9500)
        trusted = bool(g.bool("end_is_trusted_polya"))

        def processor(out_edges, in_edges):
            graph = ig.IntronGraph.__new__(ig.IntronGraph)
            graph.outgoing_edges, graph.incoming_edges = out_edges, in_edges
            graph.intron_collector = Params()
            graph.intron_collector.clustered_introns = {}
            prm = Params()
            prm.apa_delta, prm.delta = apa, delta
            real_sets = (graph.outgoing_edges, graph.incoming_edges)
            graph.outgoing_edges, graph.incoming_edges = {}, {}          # the real constructor only collects the vertex universe from them
            pp = gbmc.IntronPathProcessor(prm, graph)
            graph.outgoing_edges, graph.incoming_edges = real_sets
            return pp
        res = []
        for which in ("order_a", "order_b"):
            pm = perms[g.choice(which, len(perms))]
            res.append(call(g, processor({intron: ListSet(fwd[i] for i in pm)}, {}).thread_ends, intron, end, trusted))
        det = {"vertices": fwd, "read_end": end, "trusted": trusted, "chosen": res}
        same = (res[0] is None and res[1] is None) or (res[0] is not None and res[1] is not None and res[0][0] == res[1][0] and res[0][1] == res[1][1])
        g.check(same, "the terminal vertex a read is threaded to does not depend on the iteration order of the vertex set", detail=det)
        m_intron = mir(intron)
        r = call(g, processor({}, {m_intron: ListSet(rev)}).thread_starts, m_intron, M - end, trusted)
        # near-identical ends: two polyA vertices within apa_delta of the read end are told apart by coordinate order (outside the claim)
        near = SUM([ITE(AND(kinds[i] == 0, abs(pos[i] - end) <= apa), 1, 0) for i in range(n)])
        e = res[0]
        if e is None:
            ok = r is None
        else:
            ok = r is not None and r[1] == M - e[1] and r[0] == {ig.VERTEX_polya: ig.VERTEX_polyt, ig.VERTEX_read_end: ig.VERTEX_read_start}.get(e[0], None)
        g.check(IMPLIES(near <= 1, ok), "thread_starts on the mirror image = mirror of thread_ends", detail=dict(det, mirrored_result=r))
        # one processor, one intron with vertices on BOTH sides (a mono-intronic read asks for its end and then for its start):
        # the start it is threaded to must not depend on the end query made before
        sk = g.choice("start_vertex_kind", 2)
        spos = g.int("start_vertex_pos", 2000, 4998)
        inc = [((ig.VERTEX_polyt if sk == 0 else ig.VERTEX_read_start), spos)]
        start = g.int("read_start", 1500, 4999)
        both = processor({intron: ListSet(fwd)}, {intron: ListSet(inc)})
        call(g, both.thread_ends, intron, end, trusted)
        r1 = call(g, both.thread_starts, intron, start, trusted)
        r2 = call(g, processor({intron: ListSet(fwd)}, {intron: ListSet(inc)}).thread_starts, intron, start, trusted)
        eq = (r1 is None and r2 is None) or (r1 is not None and r2 is not None and r1[0] == r2[0] and r1[1] == r2[1])
        g.check(eq, "the start vertex a read is threaded to does not depend on the end query made before on the same processor",
                detail={"after_end_query": r1, "fresh": r2})
    return fn


# ---------------------------------------------------------------------------------- float lane (z3 floating point)
def penalty_order_real(costs):
    """the REAL select_best_among_inconsistent on two isoforms that have the same events in opposite order (what reflection
    does to the event list): both must be among the best"""
    import src.long_read_assigner as lra_
    by_cost = {}
    for ev, c in ia.event_subtype_cost.items():
        if ev.name.startswith(("exon_elongation", "major_exon_elongation")):
            continue                    # their cost is recomputed from the elongation length
        by_cost.setdefault(float(c), ev)
    events = [ia.MatchEvent(by_cost[float(c)]) for c in costs]
    a = lra_.LongReadAssigner.__new__(lra_.LongReadAssigner)
    a.params = Params()
    a.resolve_by_nucleotide_score = lambda profile, isoforms, similarity_function=None, top_scored_factor=None: list(isoforms)
    # this lane is about binary floating point: the function must see the REAL math module, not the exact-real shim
    import math as real_math
    shimmed = lra_.__dict__.get("math")
    if shimmed is not None:
        lra_.math = real_math
    try:
        best, score = a.select_best_among_inconsistent(None, {"T_fwd": list(events), "T_rev": list(reversed(events))})
    finally:
        if shimmed is not None:
            lra_.math = shimmed
    return sorted(best), score


def fp_lane(n_events):
    def run(ctx):
        import time
        import z3
        table = sorted({float(c) for ev, c in ia.event_subtype_cost.items() if not ev.name.startswith(("exon_elongation", "major_exon_elongation"))})
        F64, rm = z3.Float64(), z3.RNE()
        xs = [z3.FP("event%d_cost" % i, F64) for i in range(n_events)]
        s_ = z3.Solver()
        for x in xs:
            s_.add(z3.Or([x == z3.FPVal(c, F64) for c in table]))

        def acc(seq):
            t = z3.FPVal(0.0, F64)
            for x in seq:
                t = z3.fpAdd(rm, t, x)          # penalty_score += event_cost * 1
            return t
        s_.add(z3.Not(z3.fpEQ(acc(xs), acc(list(reversed(xs))))))
        st = {"paths": 0, "paths_reached_assertion": 0, "paths_infeasible": 0, "queries": 0, "obligations": 0, "discharged": 0, "inconclusive": [],
              "n_inconclusive": 0, "labels": {}, "excluded": {}, "known_hits": {}, "samples": [], "solver_s": 0.0}
        label = "two isoforms with the same events in opposite order get the same penalty (both are best)"
        t0 = time.time()
        tried = 0
        # every order-sensitive cost sequence the solver finds is a candidate; the real function is the judge
        while tried < 40:
            st["queries"] += 1
            r = s_.check()
            if str(r) != "sat":
                if str(r) == "unknown":
                    st["inconclusive"].append("z3 FP query unknown")
                    st["n_inconclusive"] += 1
                break
            m = s_.model()
            costs = []
            for x in xs:
                v = m.eval(x, model_completion=True)
                approx = float(z3.simplify(z3.fpToReal(v)).as_fraction())
                costs.append(min(table, key=lambda c: abs(c - approx)))
            tried += 1
            st["paths"] += 1
            st["paths_reached_assertion"] += 1
            st["obligations"] += 1
            st["labels"][label] = st["labels"].get(label, 0) + 1
            best, score = penalty_order_real(costs)
            if best != ["T_fwd", "T_rev"]:
                st["cex"] = {"label": label, "model": {"event_costs": costs}, "detail": {"best": best, "score": score}}
                break
            st["discharged"] += 1
            s_.add(z3.Or([x != z3.FPVal(c, F64) for x, c in zip(xs, costs)]))
        st["solver_s"] = round(time.time() - t0, 3)
        st["samples"].append({"label": "order-sensitive cost sequences examined", "witness": {"count": tried, "cost_table": table}})
        if tried == 0:
            st["obligations"], st["discharged"], st["paths"], st["paths_reached_assertion"] = 1, 1, 1, 1
            st["labels"]["no sequence of %d event costs is order sensitive in binary64" % n_events] = 1
        return st
    return run


def replay_custom(inst, case):
    best, score = penalty_order_real(case["model"]["event_costs"])
    return best != ["T_fwd", "T_rev"], "best isoforms %s, score %r" % (best, score)


def instances(tier, seed):
    q = tier == "quick"
    P = "src.polya_verification:"
    out = []
    G = "src.graph_based_model_construction:"
    for n in ((1, 2) if q else (1, 2, 3)):
        out.append(Instance("thread_terminal[%d]" % n, h_thread(n), [G + "IntronPathProcessor.thread_ends", G + "IntronPathProcessor.thread_starts",
                                                                     "src.intron_graph:IntronGraph.get_outgoing", "src.intron_graph:IntronGraph.get_incoming"],
                            "%d vertices (polyA / read end / next intron, symbolic positions) after one intron, symbolic read end, apa_delta, delta; "
                            "both iteration orders of the vertex set" % n, weight=30 ** n, budget_s=900))
    for n in ((1, 2, 3) if q else (1, 2, 3, 4)):
        out.append(Instance("mirror_polya_counts[%d]" % n, h_counts(n), [P + "PolyAFixer.count_polya_exons", P + "PolyAFixer.count_polyt_exons",
                                                                         P + "shift_polya", P + "shift_polyt"], "%d exons, symbolic positions" % n, weight=3 ** n))
    for n in ((1, 2, 3, 4, 5) if q else (1, 2, 3, 4, 5, 6, 7)):
        out.append(Instance("mirror_search[%d]" % n, h_search(n), ["src.common:interval_bin_search", "src.common:interval_bin_search_rev",
                                                                   "src.common:sum_intervals_to_point", "src.common:sum_intervals_from_point"],
                            "%d intervals" % n, weight=2 ** n))
    for n in ((2, 3) if q else (2, 3, 4)):
        out.append(Instance("mirror_ref_exons[%d]" % n, h_ref_exons(n), [P + "PolyAVerifier.detect_reference_exons_beyond_polya",
                                                                         P + "PolyAVerifier.detect_reference_exons_before_polyt"],
                            "%d isoform exons, symbolic tail positions" % n, weight=5 ** n, budget_s=900))
    for ni, nr in ([(2, 1), (2, 2)] if q else [(2, 1), (2, 2), (3, 2), (3, 3)]):
        out.append(Instance("mirror_verify[%d,%d]" % (ni, nr), h_verify(ni, nr), [P + "PolyAVerifier.verify_polya", P + "PolyAVerifier.verify_polyt",
                                                                                 P + "PolyAVerifier.check_if_close", P + "PolyAVerifier.correct_polya_positions"],
                            "%d isoform exons x %d read exons, symbolic coordinates and tails" % (ni, nr), weight=8 ** (ni + nr), budget_s=1500))
    F = ["src.long_read_assigner:LongReadAssigner.assign_to_isoform", "src.long_read_assigner:LongReadAssigner.select_similar_isoforms",
         "src.long_read_assigner:LongReadAssigner.select_best_among_inconsistent", "src.long_read_assigner:LongReadAssigner.categorize_exon_elongation_subtype",
         "src.junction_comparator:JunctionComparator.compare_junctions", "src.long_read_profiles:CombinedProfileConstructor.construct_profiles",
         P + "PolyAVerifier.verify_read_ends"]
    loci = ["skip", "alt_ends"] if q else sorted(LOCI)
    for li, locus in enumerate(loci):
        for preset in (["default"] if q else ["precise", "default", "loose"]):
            for ti, (tid, gid, strand, exons) in enumerate(LOCI[locus]):
                n = len(exons)
                shapes = ["follow", "elongated_left", "elongated_right", "shifted_site"]
                for si, shape in enumerate(shapes):
                    light = {("skip", "T1", "follow"), ("skip", "T2", "elongated_right"), ("alt_ends", "T8", "follow"), ("skip", "T1", "elongated_left"),
                             ("alt_ends", "T1", "elongated_left"),
                             [("skip", "T2", "shifted_site"), ("skip", "T1", "shifted_site"), ("skip", "T2", "elongated_left")][seed % 3]}
                    if q and (locus, tid, shape) not in light:
                        continue
                    out.append(Instance("mirror_assign[%s,%s,%s,%s]" % (locus, tid, shape, preset), h_assign_mirror(locus, tid, 0, n - 1, preset, shape), F,
                                        "locus %s and its mirror image, read %s %s" % (locus, shape, tid), weight=40 * n, budget_s=1500))
    for n_, ml in ([(1, 7), (2, 6)] if q else [(1, 9), (2, 8), (3, 6)]):
        out.append(Instance("translate_regions[n=%d,len<=%d]" % (n_, ml), h_regions_translate(n_, ml),
                            ["src.alignment_processor:AlignmentCollector.process", "src.alignment_processor:AlignmentCollector.split_coverage_regions",
                             "src.alignment_processor:AbstractAlignmentStorage.add_alignment"],
                            "%d alignments (scaled constants), arbitrary shift when the locus is one region, multiples of the bin otherwise" % n_,
                            weight=60 ** n_, budget_s=1200))
    for n_ in ((3,) if q else (3, 4)):
        out.append(Instance("penalty_event_order[float64,%d events]" % n_, run=fp_lane(n_), kind="z3-fp",
                            funcs=["src.long_read_assigner:LongReadAssigner.select_best_among_inconsistent", "src.isoform_assignment:event_subtype_cost"],
                            bounds="%d events with costs from the real cost table, IEEE binary64 round-to-nearest; up to 40 order-sensitive "
                                   "sequences found by z3 are replayed on the real function" % n_, weight=10))
    out.append(Instance("mirror_polya_finder", h_polya_finder, ["src.polya_finder:PolyAFinder.detect_polya", "src.polya_finder:PolyAFinder.find_polya_tail",
                                                                "src.polya_finder:PolyAFinder.find_polyt_head", "src.polya_finder:move_ref_coord_alogn_alignment"],
                        "%d read ends (tail length / purity / internal A-rich end), symbolic alignment start" % len(POLYA_READS), weight=20))
    for locus in sorted(EXTRA_LOCI):
        for preset in (["default"] if q else ["precise", "default", "loose"]):
            out.append(Instance("mirror_assign[%s,T0,drop_inner,%s]" % (locus, preset), h_assign_mirror(locus, "T0", 0, 2, preset, "drop_inner"), F,
                                "locus %s and its mirror image, read of T0 without its inner exon (overruns the other isoform's end)" % locus,
                                weight=120, budget_s=1500))
    for a, b in ([(2, 2)] if q else [(2, 2), (3, 2), (3, 3)]):
        out.append(Instance("translate[%d,%d]" % (a, b), h_translate(a, b), ["src.common:merge_ranges", "src.common:sum_intervals_to_point",
                                                                            "src.common:interval_bin_search", "src.common:junctions_from_blocks"],
                            "lists of %d and %d intervals, symbolic shift k" % (a, b), weight=10 * a * b))
    import itertools
    for ops in ([(0, 3, 0), (4, 0, 2, 0, 3, 0), (0, 1, 0, 3, 2, 0, 4)] if q else [c for c in itertools.product((0, 1, 2, 3, 4), repeat=4)]):
        out.append(Instance("translate_cigar[%s]" % "".join("MIDNS"[o] for o in ops), h_translate_cigar(ops), ["src.common:get_read_blocks"],
                            "symbolic lengths, start and shift", weight=1))
    return out
