"""C06 - outputs do not depend on threads, hash seed, memory mode or repetition."""
import ast
import glob
import itertools
import os

import src.isoform_assignment as ia
import src.graph_based_model_construction as gbmc

from props import c05, c09, c10, c15
from vlib import shims
from vlib.runner import Instance, REPO
from vlib.spec import AND, OR, NOT, ITE, IMPLIES, IFF, SUM, call

PROPERTY = "C06"
EXPLANATION = ("What a solver can decide about run-to-run identity is order- and state-independence of the functions through which "
               "iteration order (hash seed) and prior worker state (thread schedule) reach an output: sets are replaced by ORDER SHIMS "
               "whose iteration order is a permutation chosen by the solver, class-level state is given arbitrary prior contents, and the "
               "two memory modes are run side by side; z3 / the case split proves equal results for every order, prior state and mode.")
STUBS = ["set of read groups / isoform ids -> list in a solver-chosen permutation (order shim)", "as C05, C09, C10, C15 for the shared harnesses"]
ASSUMPTIONS = ["a different PYTHONHASHSEED or thread count can influence outputs only through set/dict iteration order and through state "
               "left in a worker process by the chromosomes it handled earlier"]
OUTSIDE = ["byte identity of whole runs under a real ProcessPoolExecutor", "merge_files ordering on a real file system",
           "set-iteration sites listed as unmodelled in the evidence (AST scan)"]


def setup_symbolic():
    from props import handoff
    handoff.setup_symbolic()
    c05.setup_symbolic()
    c09.setup_symbolic()
    c10.setup_symbolic()
    c15.setup_symbolic()


def set_iteration_sites():
    """AST scan: for-loops / list() / enumerate() directly over something built by set(...) or a name assigned from a set"""
    sites = []
    for path in sorted(glob.glob(os.path.join(REPO, "src", "*.py"))):
        try:
            src = open(path).read()
            tree = ast.parse(src)
        except SyntaxError:
            continue
        for fn in [n for n in ast.walk(tree) if isinstance(n, (ast.FunctionDef,))]:
            setnames = set()
            for n in ast.walk(fn):
                if isinstance(n, ast.Assign) and isinstance(n.value, ast.Call) and isinstance(n.value.func, ast.Name) and n.value.func.id == "set":
                    for t in n.targets:
                        if isinstance(t, ast.Name):
                            setnames.add(t.id)
            for n in ast.walk(fn):
                it = None
                if isinstance(n, ast.For):
                    it = n.iter
                elif isinstance(n, ast.Call) and isinstance(n.func, ast.Name) and n.func.id in ("list", "enumerate") and n.args:
                    it = n.args[0]
                if it is None:
                    continue
                is_set = (isinstance(it, ast.Call) and isinstance(it.func, ast.Name) and it.func.id == "set") or \
                         (isinstance(it, ast.Name) and it.id in setnames)
                if is_set:
                    sites.append("%s:%d %s" % (os.path.basename(path), n.lineno, fn.name))
    return sites


def h_scan(g):
    sites = set_iteration_sites()
    g.check(True, "set-iteration sites in src/ (informational): %s" % "; ".join(sites[:40]))


class Obj:
    def __init__(self, **kw):
        self.__dict__.update(kw)


def h_basic_record_order(n):
    """BasicReadAssignment built from the same matches in two insertion orders must be equal (its __eq__ compares the
    isoform list that comes out of a set)"""
    perms = list(itertools.permutations(range(n)))

    def fn(g):
        ids = ["T%d" % i for i in range(n)]
        p1 = perms[g.choice("order_a", len(perms))]
        p2 = perms[g.choice("order_b", len(perms))]
        old = ia.__dict__.get("set")
        ia.set = shims.sym_set if g.symbolic else OrderedSet
        try:
            recs = []
            for p in (p1, p2):
                ra = Obj(assignment_id=1, read_id="r", chr_id="chr1", exons=[(1, 5)], genomic_region=(1, 9), multimapper=False, polyA_found=False,
                         assignment_type=ia.ReadAssignmentType.ambiguous, gene_assignment_type=ia.ReadAssignmentType.unique,
                         isoform_matches=[Obj(assigned_gene="G", assigned_transcript=ids[i], penalty_score=0.0) for i in p])
                recs.append(call(g, ia.BasicReadAssignment, ra))
        finally:
            if old is None:
                del ia.set
            else:
                ia.set = old
        g.check(recs[0] == recs[1], "two compact records of the same alignment are equal whatever order the isoform set iterates in",
                detail={"order_a": list(p1), "order_b": list(p2), "isoforms": [recs[0].isoforms, recs[1].isoforms]})
    return fn


class OrderedSet:
    """replay-side stand-in with the same observable behaviour as the order shim: iterates in insertion order"""
    def __init__(self, it=()):
        self.l = []
        for x in it:
            self.add(x)

    def add(self, x):
        if x not in self.l:
            self.l.append(x)

    def __iter__(self):
        return iter(self.l)

    def __len__(self):
        return len(self.l)


class FlipSet:
    """set whose iteration order is the insertion order or its reverse (class-level switch chosen by the solver): stands for
    'any iteration order' of a set of strings under a different PYTHONHASHSEED"""
    reverse = False

    def __init__(self, it=()):
        self.l = []
        for x in it:
            self.add(x)

    def add(self, x):
        if x not in self.l:
            self.l.append(x)

    def update(self, it):
        for x in it:
            self.add(x)

    def __contains__(self, x):
        return x in self.l

    def __iter__(self):
        return iter(reversed(self.l) if FlipSet.reverse else self.l)

    def __len__(self):
        return len(self.l)


def h_feature_table_order(locus):
    """the exon / intron feature table of a locus with features shared by two genes: rows (incl. the gene list) are the same
    whatever order the gene-id sets iterate in"""
    from props import c13
    import src.gene_info as gim

    def fn(g):
        rows = []
        old = gim.__dict__.get("set")
        gim.set = FlipSet
        try:
            for which in ("order_a", "order_b"):
                FlipSet.reverse = bool(g.bool(which + "_reversed"))
                gi = call(g, c13.build_locus, locus, 6)
                rows.append([r.to_str() for r in gi.exon_property_map] + [r.to_str() for r in gi.intron_property_map])
        finally:
            FlipSet.reverse = False
            if old is None:
                del gim.set
            else:
                gim.set = old
        g.check(rows[0] == rows[1], "feature table rows do not depend on the iteration order of the gene-id sets",
                detail={"differing_rows": [(a, b) for a, b in zip(rows[0], rows[1]) if a != b][:3]})
    return fn


def h_gene_choice_order(n_genes):
    """select_reference_gene: the gene a novel transcript is attached to must not depend on the iteration order of the
    gene-id sets (hash seed)"""
    from props import flblock
    perms = list(itertools.permutations(range(n_genes)))

    def fn(g):
        genes = ["GENE_%s" % c for c in "ABC"[:n_genes]]
        introns = [(11, 30), (41, 60)]
        shares = [g.choice("gene%d_introns" % i, 3) for i in range(n_genes)]      # 0: first intron, 1: second, 2: both
        strands = {gid: ("+" if g.bool("gene%d_plus" % i) else "-") for i, gid in enumerate(genes)}
        tstrand = ["+", "-", "."][g.choice("transcript_strand", 3)]
        res = []
        for which in ("order_a", "order_b"):
            p = perms[g.choice(which, len(perms))]
            c = flblock.make_constructor("A" * 100, flblock.default_params("auto"))
            c.gene_info = flblock.Obj(chr_id="chr1", gene_strands=strands, empty=lambda: False)
            c.intron_genes = {}
            for k, intron in enumerate(introns):
                owners = OrderedSet(genes[i] for i in p if shares[i] in (k, 2))
                if len(owners):
                    c.intron_genes[intron] = owners
            res.append(call(g, c.select_reference_gene, introns, (1, 100), tstrand))
        g.check(res[0] == res[1], "the reference gene chosen for a novel transcript does not depend on set iteration order",
                detail={"chosen": res, "shares": shares, "strands": strands})
    return fn


def instances(tier, seed):
    q = tier == "quick"
    out = [Instance("set_iteration_scan", h_scan, [], "AST scan of src/*.py", weight=1)]
    for n in ((2, 3) if q else (2, 3, 4)):
        out.append(Instance("compact_record_set_order[%d]" % n, h_basic_record_order(n), ["src.isoform_assignment:BasicReadAssignment.__init__",
                                                                                        "src.isoform_assignment:BasicReadAssignment.__eq__"],
                            "%d isoform matches, both insertion orders chosen by the solver" % n, weight=n))
    for n in ((2, 3) if q else (2, 3)):
        out.append(Instance("reference_gene_choice_order[%d]" % n, h_gene_choice_order(n),
                            ["src.graph_based_model_construction:GraphBasedModelConstructor.select_reference_gene"],
                            "%d genes sharing introns, both iteration orders of the gene-id sets chosen by the solver" % n, weight=50 * n))
    for locus in ("shared_chain", "antisense"):
        out.append(Instance("feature_table_set_order[%s]" % locus, h_feature_table_order(locus), ["src.gene_info:GeneInfo.set_feature_properties",
                                                                                                 "src.gene_info:FeatureInfo.to_str"],
                            "locus %s (features shared by two genes), both iteration orders of every set in src.gene_info" % locus, weight=10))
    # memory mode: the hand-off between read collection and processing (totals, polyA fraction, verdicts) - shared with C08
    from props import handoff, c18
    out.append(Instance("memory_mode_handoff[alignments=2]", handoff.h_handoff(2),
                        ["src.dataset_processor:DatasetProcessor.collect_reads", "src.dataset_processor:DatasetProcessor.prepare_multimapper_dict",
                         "src.dataset_processor:DatasetProcessor.resolve_multimappers"],
                        "2 alignments with solver-chosen read id / chromosome / class / secondary flag; default and --high_memory side by side", weight=3000, budget_s=1800))
    # thread schedule: two chromosomes handled by one worker ask about introns at the same coordinates (shared with C18)
    out.append(Instance("strand_detectors_independent", c18.h_detector_independent, ["src.gene_info:StrandDetector.__init__", "src.gene_info:StrandDetector.count_canonical_sites"],
                        "two detectors, one intron at the same coordinates, all 25 x 25 site pairs", weight=20))
    out.append(Instance("exon_id_storage_fresh", c10.h_id_storage_fresh, ["src.dataset_processor:construct_models_in_parallel", "src.id_policy:FeatureIdStorage.__init__"],
                        "two consecutive chromosome runs in one worker process", weight=30))
    # hash seed: group universe order (shared with C09)
    for gs in ([["NA", "A"], ["b", "a", "NA"]] if q else [["NA", "A"], ["b", "a", "NA"], ["10", "NA", "b", "B"]]):
        out.append(Instance("group_order[%s]" % "|".join(sorted(gs)), c09.h_grouped(sorted(gs), "both"),
                            ["src.long_read_counter:AssignedFeatureCounter.__init__", "src.long_read_counter:AssignedFeatureCounter.dump_grouped"],
                            "every iteration order of the group set", weight=len(gs) ** 3, budget_s=1800))
    # thread schedule: state left in a worker by earlier chromosomes / samples (shared with C10)
    out.append(Instance("worker_prior_state", c10.h_entry_point, ["src.dataset_processor:construct_models_in_parallel"],
                        "arbitrary prior contents of the class-level 'already reported' set", weight=50))
    out.append(Instance("id_counters", c10.h_id_counters, ["src.isoform_assignment:ReadAssignment.__init__", "src.gene_info:FeatureInfo.__init__"],
                        "symbolic prior counter values", weight=5))
    # memory mode: BAM re-fetch vs in-memory index, compact record from file vs in memory (shared with C05 / C15)
    for n, ml, uni in ([(2, 6, c05.UNIVERSE), (3, 6, 14)] if q else [(2, 8, c05.UNIVERSE), (3, 8, c05.UNIVERSE), (4, 6, c05.UNIVERSE)]):
        out.append(Instance("memory_mode_regions[n=%d]" % n, c05.h_split(n, ml, uni), c05.instances(tier, seed)[0].funcs,
                            "%d alignments of length <= %d starting in [0,%d), both memory modes side by side (scaled constants)" % (n, ml, uni),
                            weight=100 ** n, budget_s=2400))
    for sh in ([(2, 1, 0, 0, False)] if q else [(2, 1, 0, 0, False), (1, 2, 1, 1, True)]):
        out.append(Instance("memory_mode_compact_record[%d exons]" % sh[0], c15.h_assignment(*(sh + (seed % 3, seed % 8))),
                            ["src.isoform_assignment:BasicReadAssignment.deserialize_from_read_assignment", "src.isoform_assignment:BasicReadAssignment.__init__"],
                            "record read from the intermediate file == record built in memory", weight=200, budget_s=1200))
    return out
