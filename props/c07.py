"""C07 - resuming an interrupted run yields the outputs of an uninterrupted run (claimed part: the read-collection
stage of one chromosome: 'stage lock present' implies 'everything the skip branch reads is complete')."""
import json
import os
import shutil
import subprocess
import sys
import tempfile
import time

import z3

from props import c07_driver
from vlib.runner import Instance, VERIF, REPO

PROPERTY = "C07"
EXPLANATION = ("Engine C: the file-system event trace (open / buffered write / flush / close, lock creation) of the real "
               "collect_reads_in_parallel is RECORDED by running it once against a recording file layer, with the heavy collaborators "
               "(pysam, Fasta, AlignmentCollector) replaced by fakes that feed real ReadAssignment objects to the real "
               "TmpFileAssignmentPrinter, group dump and EnumStats. The crash point k is a z3 integer over the event indices: data written "
               "through a buffered handle are durable only from the next flush/close. z3 decides: for every k, lock in FS(k) => every file "
               "the --resume skip branch reads is closed in FS(k). A crash index found is replayed for real: a subprocess is killed "
               "(os._exit) at exactly that event and a second process resumes the stage.")
STUBS = ["pysam.AlignmentFile, pyfaidx.Fasta, AlignmentCollector -> fakes yielding one region with 3 real ReadAssignment objects",
         "open() of src.dataset_processor / src.assignment_io / src.stats -> recording wrapper around real files"]
ASSUMPTIONS = ["process death loses user-space buffers (data are durable from flush/close on); power loss is not modelled",
               "objects are finalised where CPython's reference counting runs __del__"]
OUTSIDE = ["model construction / merge / clean-up stages and the final equality of outputs (only the read-collection stage of one chromosome is recorded)",
           "parameter reloading from .params (pickle)", "byte content produced by the real collaborators"]


def record(stage="collect"):
    d = tempfile.mkdtemp(prefix="verif_c07_")
    try:
        layer = c07_driver.Layer(d)
        out = c07_driver.STAGES[stage](d, False, layer)
        import gc
        gc.collect()
        return layer.events, out
    finally:
        shutil.rmtree(d, ignore_errors=True)


def analyse_merge(events):
    """merge stage: at every crash index, the data of a removed part must be durable in the merged file"""
    removes = [i for i, (k, p, h) in enumerate(events) if k == "remove"]
    merged_handles = sorted({h for k, p, h in events if k == "write" and p.endswith(".corrected_reads.bed") and "_chr" not in p})
    if not removes or not merged_handles:
        return "error", None, "no removal / merged write recorded"
    h = merged_handles[0]
    last_write = max(i for i, (k, p, hh) in enumerate(events) if k == "write" and hh == h)
    dur = [i for i, (k, p, hh) in enumerate(events) if hh == h and k in ("flush", "close") and i > last_write]
    durable_idx = dur[0] if dur else len(events) + 1
    s = z3.Solver()
    k = z3.Int("crash_after_event")
    s.add(k >= 0, k <= len(events))
    s.add(z3.Or(*[k > r for r in removes]))      # some part is already removed in FS(k)
    s.add(k <= durable_idx)                      # ... while the merged data are still only in the user-space buffer
    t0 = time.time()
    r = s.check()
    dt = time.time() - t0
    if r == z3.sat:
        return "sat", s.model()[k].as_long(), {"lock_event": removes[0], "first_removal": removes[0], "merged_durable_at": durable_idx, "solver_s": dt}
    return str(r), None, {"lock_event": removes[0], "solver_s": dt}


def analyse(events, stage="collect"):
    """z3 over the crash index: returns (verdict, k, detail)"""
    if stage == "merge":
        return analyse_merge(events)
    suffix = c07_driver.LOCKS[stage]
    lock = [i for i, (k, p, h) in enumerate(events) if k == "open" and p.endswith(suffix)]
    if not lock:
        return "error", None, "no lock creation recorded"
    L = lock[0]
    # a written handle is durable from its last flush/close after its last write
    written = sorted({(p, h) for k, p, h in events if k == "write" and not p.endswith(suffix)})
    close_idx = {}
    for (p, h) in written:
        last_write = max(i for i, (k, q, hh) in enumerate(events) if (q, hh) == (p, h) and k == "write")
        idx = [i for i, (k, q, hh) in enumerate(events) if (q, hh) == (p, h) and k in ("close", "flush") and i > last_write]
        close_idx["%s#%d" % (p, h)] = idx[0] if idx else len(events) + 1
    needed = sorted(close_idx)
    s = z3.Solver()
    k = z3.Int("crash_after_event")
    s.add(k >= 0, k <= len(events))
    # FS(k): events 0..k-1 happened.  lock visible and some needed file not yet closed
    s.add(k > L)
    s.add(z3.Or(*[k <= close_idx[p] for p in needed]))
    t0 = time.time()
    r = s.check()
    dt = time.time() - t0
    if r == z3.sat:
        kk = s.model()[k].as_long()
        late = [p for p in needed if kk <= close_idx[p]]
        return "sat", kk, {"lock_event": L, "not_yet_closed": late, "solver_s": dt}
    return str(r), None, {"lock_event": L, "solver_s": dt}


def replay(k, stage="collect"):
    """kill a real process at event k, then resume in a fresh process"""
    d = tempfile.mkdtemp(prefix="verif_c07r_")
    env = dict(os.environ)
    env["PYTHONPATH"] = VERIF + os.pathsep + REPO
    env["C07_STAGE"] = stage
    try:
        ref = subprocess.run([sys.executable, "-m", "props.c07_driver", "run", d + "_ref", "-1"], cwd=VERIF, env=env, capture_output=True, text=True, timeout=300)
        os.makedirs(d + "_ref", exist_ok=True)
        ref = subprocess.run([sys.executable, "-m", "props.c07_driver", "run", d + "_ref", "-1"], cwd=VERIF, env=env, capture_output=True, text=True, timeout=300)
        want = json.loads(ref.stdout.strip().splitlines()[-1])["result"]
        p1 = subprocess.run([sys.executable, "-m", "props.c07_driver", "run", d, str(k)], cwd=VERIF, env=env, capture_output=True, text=True, timeout=300)
        if p1.returncode != 9:
            return False, "the process was not killed at event %d (rc=%s)" % (k, p1.returncode)
        p2 = subprocess.run([sys.executable, "-m", "props.c07_driver", "resume", d], cwd=VERIF, env=env, capture_output=True, text=True, timeout=300)
        got = json.loads(p2.stdout.strip().splitlines()[-1])
        if not got.get("ok"):
            return True, "resumed stage aborts: %s" % got.get("error")
        if got["result"] != want:
            return True, "resumed stage silently differs: %s instead of %s" % (got["result"], want)
        return False, "resumed stage equals the uninterrupted one"
    finally:
        shutil.rmtree(d, ignore_errors=True)
        shutil.rmtree(d + "_ref", ignore_errors=True)


def lane(ctx):
    stage = ctx.get("stage", "collect")
    events, out = record(stage)
    st = {"paths": 1, "paths_reached_assertion": 1, "paths_infeasible": 0, "queries": 1, "obligations": 1, "discharged": 0, "inconclusive": [],
          "n_inconclusive": 0, "labels": {"stage lock present => every file the skip branch reads is complete": 1}, "excluded": {}, "known_hits": {},
          "samples": [{"label": "recorded file-system event trace of collect_reads_in_parallel", "witness": {"events": events, "result": out}}]}
    if stage == "sample":
        # a start WITHOUT --resume must not trust per-chromosome locks of an earlier, killed attempt in the same folder
        st["obligations"] += 1
        st["labels"]["a fresh start removes the per-chromosome locks of earlier attempts"] = 1
        if c07_driver.STALE_LOCKS_LEFT:
            st["cex"] = {"label": "a fresh (non --resume) start leaves stale per-chromosome locks behind: a later --resume would load another run's reads",
                         "model": {"stale_locks": True}, "detail": {"left": list(c07_driver.STALE_LOCKS_LEFT)}}
            return st
        st["discharged"] += 1
    verdict, k, detail = analyse(events, stage)
    st["solver_s"] = detail.get("solver_s", 0) if isinstance(detail, dict) else 0
    st["crash_points_modelled"] = len(events) + 1
    if verdict == "unsat":
        st["discharged"] += 1
        # model validation against the implementation: really kill the stage at crash points and resume
        ks = list(range(len(events) + 1)) if ctx.get("tier") == "thorough" else sorted({0, len(events) // 2, detail["lock_event"], detail["lock_event"] + 1, len(events)})
        st["crash_points_replayed_for_real"] = len(ks)
        for kk in ks:
            bad, text = replay(kk, stage)
            st["obligations"] += 1
            if bad:
                st["cex"] = {"label": "killed at file event %d and resumed: %s" % (kk, text), "model": {"crash_after_event": kk}, "detail": {"events": events}}
                break
            st["discharged"] += 1
    elif verdict == "sat":
        known = {"collect": "C07-save-file-closed-after-lock", "process": "C07-part-files-closed-after-processed-lock",
                 "merge": "C07-merge-removes-parts-before-merged-file-is-durable", "sample": "C07-sample-lock-before-info"}[stage]
        if known in ctx["active"]:
            st["excluded"] = {known: 1}
            st["known_hits"] = {known: {"crash_after_event": k, "detail": detail}}
            # everything else: a crash strictly before the lock, or after the last close, resumes correctly (replayed for real)
            st["obligations"] = 3
            lock_ev = detail["lock_event"]
            for kk, label in ((lock_ev, "crash just before the lock is created / the first part is removed"), (len(events), "crash after the stage finished")):
                bad, text = replay(kk, stage)
                st["labels"][label + " resumes correctly"] = 1
                if bad:
                    st["cex"] = {"label": label + ": " + text, "model": {"crash_after_event": kk}, "detail": {"events": events}}
                    break
                st["discharged"] += 1
        else:
            label = "a per-chromosome part is already removed while its content is not yet durable in the merged file" if stage == "merge" else \
                "stage lock exists while a file read on --resume is not closed yet"
            st["cex"] = {"label": label, "model": {"crash_after_event": k}, "detail": dict(detail, events=events)}
    else:
        st["error"] = "analysis failed: %s %s" % (verdict, detail)
    return st


def replay_custom(inst, case):
    if case["model"].get("stale_locks"):
        record(inst.meta.get("stage", "sample"))
        left = list(c07_driver.STALE_LOCKS_LEFT)
        return bool(left), "stale locks left after a fresh start: %s" % left
    bad, text = replay(case["model"]["crash_after_event"], inst.meta.get("stage", "collect"))
    return bad, text


def instances(tier, seed):
    out = []
    for stage, fn_name in (("collect", "collect_reads_in_parallel"), ("process", "construct_models_in_parallel"), ("merge", "DatasetProcessor.merge_assignments"), ("sample", "DatasetProcessor.collect_reads")):
        def run(ctx, stage=stage):
            ctx = dict(ctx)
            ctx["tier"] = tier
            ctx["stage"] = stage
            return lane(ctx)
        out.append(Instance("%s_stage_crash_points" % stage, run=run, kind="z3-trace", meta={"stage": stage},
                            funcs=["src.dataset_processor:" + fn_name, "src.file_utils:merge_files", "src.assignment_io:TmpFileAssignmentPrinter.__del__",
                                   "src.assignment_io:AbstractAssignmentPrinter.__del__", "src.assignment_io:BEDPrinter.add_read_info",
                                   "src.stats:EnumStats.dump", "src.dataset_processor:BasicReadAssignmentLoader.get_next"],
                            bounds="every crash index over the recorded file-system events of one chromosome's %s stage" % stage, weight=10))
    return out
