"""C18 - strand and canonical-site flags are pure functions of the reference sequence."""
import itertools

import src.assignment_io as assignment_io
import src.common as common
import src.gene_info as gene_info_mod
import src.alignment_processor as alignment_processor
import src.isoform_assignment as ia
from src.gene_info import GeneInfo, TranscriptModel, TranscriptModelType, StrandDetector
from src.polya_finder import PolyAInfo
from src.graph_based_model_construction import StrandnessReportingLevel

from props import flblock
from props.flblock import Obj
from vlib import shims
from vlib.symenum import SymEnum
from vlib.runner import Instance
from vlib.spec import AND, OR, NOT, ITE, IMPLIES, IFF, SUM, call

PROPERTY = "C18"
RT = ia.ReadAssignmentType
EXPLANATION = ("The reference dinucleotides at the borders of <=3 introns are chosen by the solver from the full relevant "
               "alphabet (complete case split: canonical on +, on -, on both sides' mixtures, neither, lower case), the "
               "locus offset is a symbolic integer, and the HISTORY of queries (which introns, which strand, in which order) "
               "is chosen by the solver; the real canonical test with its per-locus memo, the strand detector and the strand "
               "block of construct_fl_isoforms run on that state.")
STUBS = ["reference sequence -> string built from solver-chosen dinucleotides", "constructor state for construct_fl_isoforms built "
         "directly (stub assigner/profile constructor, real StrandDetector, real path bookkeeping)"]
ASSUMPTIONS = ["canonical pairs are those of src/common.py CANONICAL_FWD_SITES / CANONICAL_REV_SITES (GT-AG, GC-AG, AT-AC and reverse complements)",
               "queries use a definite strand (+ or -)"]
OUTSIDE = ["introns beyond 3 per query, histories longer than 3 queries", "the '.' strand of unstranded reads in the canonical test"]

LEFTS = ["GT", "GC", "AT", "CT", "AA"]
RIGHTS = ["AG", "AC", "GC", "AT", "AA"]
INTRONS = [(11, 30), (41, 60), (71, 90)]
FWD = {("GT", "AG"), ("GC", "AG"), ("AT", "AC")}
REV = {("CT", "AC"), ("CT", "GC"), ("GT", "AT")}


def pick_pairs(g, n):
    return [(LEFTS[g.choice("intron%d_left_site" % i, len(LEFTS))], RIGHTS[g.choice("intron%d_right_site" % i, len(RIGHTS))]) for i in range(n)]


def h_canonical_history(n_introns, n_queries):
    def fn(g):
        pairs = pick_pairs(g, n_introns)
        introns = INTRONS[:n_introns]
        k = g.int("locus_offset", 0)
        gi = GeneInfo.from_region("chr1", 1, 100)
        gi.reference_region = flblock.make_sequence(introns, pairs, 100)
        gi.all_read_region_start = 1 + k
        gi.canonical_sites = shims.SymDict() if g.symbolic else {}     # memo as association list: no hashing of symbolic keys
        io = assignment_io.IOSupport(None)
        subsets = [s for r in range(1, n_introns + 1) for s in itertools.combinations(range(n_introns), r)]
        for q in range(n_queries):
            sub = subsets[g.choice("query%d_introns" % q, len(subsets))]
            strand = "+" if g.bool("query%d_plus" % q) else "-"
            res = call(g, io.check_sites_are_canonical, [(introns[i][0] + k, introns[i][1] + k) for i in sub], gi, strand)
            spec = all((pairs[i] in (FWD if strand == "+" else REV)) for i in sub)
            g.check(res == spec, "Canonical flag = every intron has a canonical pair on the reported strand, whatever was queried before",
                    detail={"query": q, "strand": strand, "introns": list(sub), "pairs": pairs})
    return fn


def h_model_flag(g):
    pairs = pick_pairs(g, 2)
    gi = GeneInfo.from_region("chr1", 1, 100)
    gi.reference_region = flblock.make_sequence(INTRONS[:2], pairs, 100)
    gi.all_read_region_start = 1
    io = assignment_io.IOSupport(None)
    strand = "+" if g.bool("plus") else "-"
    spliced = bool(g.bool("spliced"))
    exons = [(1, 10), (31, 40), (61, 100)] if spliced else [(1, 100)]
    m = TranscriptModel("chr1", strand, "T", "G", exons, TranscriptModelType.novel_not_in_catalog)
    call(g, io.add_canonical_info_for_model, m, gi)
    want = "Unspliced" if not spliced else str(all(p in (FWD if strand == "+" else REV) for p in pairs))
    g.check(m.additional_attributes.get("Canonical") == want if hasattr(m, "additional_attributes") else m.additional_info.get("Canonical") == want,
            "Canonical attribute of a model: Unspliced for mono-exonic, else all introns canonical on its strand",
            detail={"pairs": pairs, "strand": strand})


def h_read_flag(g):
    """the Canonical flag of a read as BasicTSVAssignmentPrinter prints it: from the exons of the printed alignment (Unspliced iff
    that alignment has no intron), whatever the corrected alignment looks like"""
    import io as _io
    pairs = pick_pairs(g, 2)
    gi = GeneInfo.from_region("chr1", 1, 100)
    gi.reference_region = flblock.make_sequence(INTRONS[:2], pairs, 100)
    gi.all_read_region_start = 1
    gi.all_isoforms_introns = {"T": []}
    strand = "+" if g.bool("plus") else "-"
    n_in = g.choice("read_introns", 3)
    exons = [[(1, 100)], [(1, 10), (31, 100)], [(1, 10), (31, 40), (61, 100)]][n_in]
    corrected = [[(1, 100)], [(1, 10), (31, 100)], [(1, 10), (31, 40), (61, 100)]][g.choice("corrected_alignment_introns", 3)]
    pr = assignment_io.BasicTSVAssignmentPrinter.__new__(assignment_io.BasicTSVAssignmentPrinter)
    pr.output_file = _io.StringIO()
    pr.params = flblock.Obj(cage=None, check_canonical=True)
    pr.io_support = assignment_io.IOSupport(None)
    pr.assignment_checker = flblock.Obj(check=lambda ra: True)
    m = ia.IsoformMatch(ia.MatchClassification.full_splice_match, "G", "T", ia.MatchEvent(ia.MatchEventSubtype.fsm), strand)
    ra = flblock.Obj(read_id="r", chr_id="chr1", strand=strand, exons=exons, corrected_exons=corrected, isoform_matches=[m], gene_info=gi,
                     assignment_type=RT.unique, gene_assignment_type=RT.unique, polyA_found=False, cage_found=False, additional_attributes={})
    call(g, pr.add_read_info, ra)
    line = pr.output_file.getvalue()
    want = "Unspliced" if n_in == 0 else str(all(p in (FWD if strand == "+" else REV) for p in pairs[:n_in]))
    g.check(("Canonical=%s;" % want) in line, "Canonical flag of a read: Unspliced for a mono-exonic alignment, else all introns canonical on its strand",
            detail={"pairs": pairs, "strand": strand, "line": line.strip()[-120:]})


def site_strand(p):
    f, r = p in FWD, p in REV
    return "." if f == r else ("+" if f else "-")


def h_intron_strand(g):
    p = pick_pairs(g, 1)[0]
    lower = bool(g.bool("lower_case_reference"))
    k = g.int("region_start", 1)
    seq = flblock.make_sequence(INTRONS[:1], [p], 50)
    if lower:
        seq = seq.lower()
    r = call(g, common.get_intron_strand, (INTRONS[0][0] + k - 1, INTRONS[0][1] + k - 1), seq, k)
    g.check(r == site_strand(p), "get_intron_strand = strand on which the pair is canonical ('.' if none/both)", detail={"pair": p})


def h_detector(n):
    def fn(g):
        pairs = pick_pairs(g, n)
        introns = INTRONS[:n]
        seq = flblock.make_sequence(introns, pairs, 100)
        sd = StrandDetector(_OneBased(seq))
        has_a, has_t = bool(g.bool("has_polya")), bool(g.bool("has_polyt"))
        strands = [site_strand(p) for p in pairs]
        nf, nr = strands.count("+"), strands.count("-")
        order = list(itertools.permutations(range(n)))[g.choice("query_order", len(list(itertools.permutations(range(n)))))]
        # earlier queries on sub-chains must not change later answers
        call(g, sd.get_clean_strand, [introns[order[0]]])
        r = call(g, sd.get_strand, [introns[i] for i in order], has_a, has_t)
        if nf != nr:
            want = "+" if nf > nr else "-"
        else:
            want = "+" if (has_a and not has_t) else ("-" if (has_t and not has_a) else ".")
        g.check(r == want, "strand = majority of splice-site strands, else polyA/polyT evidence, else '.'",
                detail={"pairs": pairs, "has_polya": has_a, "has_polyt": has_t})
        c = call(g, sd.get_clean_strand, introns)
        wantc = "+" if (nf > 0 and nr == 0) else ("-" if (nr > 0 and nf == 0) else ".")
        g.check(c == wantc, "clean strand only when all informative sites agree", detail={"pairs": pairs})
    return fn


def h_detector_independent(g):
    """two strand detectors (two chromosomes / loci handled by one worker) asked about introns with the SAME coordinates: each
    answers from its own reference sequence"""
    first = (LEFTS[g.choice("earlier_locus_left_site", len(LEFTS))], RIGHTS[g.choice("earlier_locus_right_site", len(RIGHTS))])
    pairs = pick_pairs(g, 1)
    a = StrandDetector(_OneBased(flblock.make_sequence(INTRONS[:1], [first], 100)))
    if bool(g.bool("earlier_locus_strand_from_annotation")):
        call(g, a.set_strand, INTRONS[0], "-")
    else:
        call(g, a.get_strand, INTRONS[:1])
    b = StrandDetector(_OneBased(flblock.make_sequence(INTRONS[:1], pairs, 100)))
    r = call(g, b.get_clean_strand, INTRONS[:1])
    g.check(r == site_strand(pairs[0]), "a strand detector answers from its own reference sequence, whatever another detector saw at the same coordinates",
            detail={"earlier_locus_sites": first, "sites": pairs[0], "answer": r})


class _OneBased:
    """chr_record as IsoQuant passes it to get_intron_strand (ref_region_start=1): position p is at index p-1"""
    def __init__(self, seq):
        self.s = seq

    def __getitem__(self, sl):
        return self.s[sl]

    def __bool__(self):
        return True


def h_read_strand(n):
    def fn(g):
        pairs = pick_pairs(g, n)
        introns = INTRONS[:n]
        seq = flblock.make_sequence(introns, pairs, 100) if n else "A" * 100
        col = alignment_processor.AlignmentCollector.__new__(alignment_processor.AlignmentCollector)
        col.strand_detector = StrandDetector(_OneBased(seq))
        t = SymEnum(g, RT, "type", allowed=[m for m in RT if m != RT.suspended])
        iso_strand = "+" if g.bool("isoform_plus") else "-"
        pa = [g.int("polya%d" % i, -1) for i in range(4)]
        exons = [(1, 10)] + [(introns[i][1] + 1, (introns[i + 1][0] - 1) if i + 1 < n else 100) for i in range(n)]
        ra = Obj(isoform_matches=[Obj(transcript_strand=iso_strand)], assignment_type=t, exons=exons,
                 corrected_introns=list(introns), polya_info=PolyAInfo(pa[0], pa[1], pa[2], pa[3]))
        r = call(g, col.get_assignment_strand, ra)
        has_a = OR(pa[0] != -1, pa[2] != -1)
        has_t = OR(pa[1] != -1, pa[3] != -1)
        strands = [site_strand(p) for p in pairs]
        nf, nr = strands.count("+"), strands.count("-")
        if nf != nr:
            by_sites = "+" if nf > nr else "-"
            spec_other = (r == by_sites)
        else:
            spec_other = AND(IMPLIES(AND(has_a, NOT(has_t)), r == "+"), IMPLIES(AND(has_t, NOT(has_a)), r == "-"),
                             IMPLIES(IFF(has_a, has_t), r == "."))
        g.check(ITE_b(t.is_unique(), r == iso_strand, spec_other),
                "read strand: isoform strand when uniquely assigned, else splice sites, else polyA/polyT evidence",
                detail={"pairs": pairs})
    return fn


def ITE_b(c, a, b):
    return AND(IMPLIES(c, a), IMPLIES(NOT(c), b))


def h_model_strand(n):
    """strand block of construct_fl_isoforms for one novel full-length path"""
    def fn(g):
        pairs = pick_pairs(g, n)
        introns = INTRONS[:n]
        seq = flblock.make_sequence(introns, pairs, 100)
        level = list(StrandnessReportingLevel)[g.choice("report_canonical_level", len(list(StrandnessReportingLevel)))]
        polyt, polya = bool(g.bool("path_starts_at_polyt")), bool(g.bool("path_ends_at_polya"))
        count = g.int("path_read_count", 0, 50)
        c = flblock.make_constructor(_OneBased(seq), flblock.default_params(level.name))
        old = flblock.get_reported()
        old = set(old) if old is not flblock._MISSING else old
        flblock.add_path(c, introns, 1, 100, count, polyt=polyt, polya=polya)
        try:
            call(g, c.construct_fl_isoforms)
        finally:
            flblock.set_reported(old)
        strands = [site_strand(p) for p in pairs]
        nf, nr = strands.count("+"), strands.count("-")
        g.check(len(c.transcript_model_storage) <= 1, "one path gives at most one model")
        for m in c.transcript_model_storage:
            if nf != nr:
                g.check(m.strand == ("+" if nf > nr else "-"), "novel model strand agrees with its splice sites", detail={"pairs": pairs})
            elif polya != polyt:
                g.check(m.strand == ("+" if polya else "-"), "uninformative sites: strand follows the polyA/polyT evidence",
                        detail={"pairs": pairs, "polya": polya, "polyt": polyt})
            if nf > 0 and nr == 0 and not polyt:
                g.check(m.strand == "+", "strand never contradicts unanimous evidence")
            if nr > 0 and nf == 0 and not polya:
                g.check(m.strand == "-", "strand never contradicts unanimous evidence")
            if level in (StrandnessReportingLevel.only_canonical, StrandnessReportingLevel.only_stranded):
                g.check(m.strand in "+-", "only_canonical / only_stranded never report a strandless model")
            if level == StrandnessReportingLevel.only_canonical:
                g.check((nf > 0 and nr == 0) or (nr > 0 and nf == 0), "only_canonical reports only models whose informative sites agree")
            g.check(count >= c.params.min_novel_count, "a novel model needs the minimal read support")
    return fn


def instances(tier, seed):
    q = tier == "quick"
    out = []
    for ni, nq in ([(1, 2), (2, 2)] if q else [(1, 2), (1, 3), (2, 2), (2, 3), (3, 2)]):
        out.append(Instance("canonical_history[introns=%d,queries=%d]" % (ni, nq), h_canonical_history(ni, nq),
                            ["src.assignment_io:IOSupport.check_sites_are_canonical"],
                            "%d introns with solver-chosen border dinucleotides, history of %d queries (intron subset x strand), symbolic locus offset" % (ni, nq),
                            weight=25 ** ni * 4 ** nq, budget_s=1500))
    out.append(Instance("model_flag", h_model_flag, ["src.assignment_io:IOSupport.add_canonical_info_for_model",
                                                    "src.assignment_io:IOSupport.check_sites_are_canonical"], "2 introns", weight=100))
    out.append(Instance("detector_independent", h_detector_independent, ["src.gene_info:StrandDetector.__init__", "src.gene_info:StrandDetector.set_strand",
                                                                         "src.gene_info:StrandDetector.count_canonical_sites"],
                        "two detectors, one intron at the same coordinates, all 25 x 25 site pairs", weight=20))
    out.append(Instance("read_flag", h_read_flag, ["src.assignment_io:BasicTSVAssignmentPrinter.add_read_info", "src.assignment_io:IOSupport.check_sites_are_canonical"],
                        "printed alignment with 0-2 introns, corrected alignment with 0-2 introns, all 25 x 25 site pairs, both strands", weight=30))
    out.append(Instance("intron_strand", h_intron_strand, ["src.common:get_intron_strand"], "1 intron, all 25 site pairs, upper/lower case, symbolic region start", weight=10))
    for n in ((1, 2) if q else (1, 2, 3)):
        out.append(Instance("detector[%d]" % n, h_detector(n), ["src.gene_info:StrandDetector.get_strand", "src.gene_info:StrandDetector.get_clean_strand",
                                                                "src.gene_info:StrandDetector.count_canonical_sites", "src.common:get_intron_strand"],
                            "%d introns, every query order" % n, weight=25 ** n, budget_s=1500))
        out.append(Instance("model_strand[%d]" % n, h_model_strand(n), ["src.graph_based_model_construction:GraphBasedModelConstructor.construct_fl_isoforms",
                                                                        "src.gene_info:StrandDetector.get_strand"],
                            "one novel path with %d introns, all report levels, symbolic read count" % n, weight=4 * 25 ** n, budget_s=1500))
    for n in ((0, 1, 2) if q else (0, 1, 2, 3)):
        out.append(Instance("read_strand[%d]" % n, h_read_strand(n), ["src.alignment_processor:AlignmentCollector.get_assignment_strand",
                                                                      "src.gene_info:StrandDetector.get_strand"],
                            "read with %d introns, symbolic assignment type and polyA positions" % n, weight=25 ** n, budget_s=1500))
    return out
