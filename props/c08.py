"""C08 - multi-mapped reads resolve to one best locus, order-independently, counted once."""
import itertools

import src.multimap_resolver as mr
import src.isoform_assignment as ia
import src.long_read_counter as lrc
import src.common as common

from vlib import shims
from vlib.symenum import SymEnum
from vlib.runner import Instance
from vlib.spec import AND, OR, NOT, ITE, IMPLIES, IFF, SUM, BOOL2INT, call, sym_max, sym_min, count_true

PROPERTY = "C08"
RT = ia.ReadAssignmentType
EXPLANATION = ("The real MultimapResolver runs on n compact records whose assignment type (symbolic enum member), "
               "secondary flag, penalty, chromosome code, coordinates and gene region are symbolic and whose isoform "
               "sets are chosen by the solver; the resolver is executed on the list and on every permutation of it "
               "in the same path, and z3 decides the priority, suspension, tie and order-independence obligations.")
STUBS = ["hand-off harness: collect_reads_in_parallel / BasicReadAssignmentLoader / pysam / open replaced by fakes (verdict and info files are symbolic byte streams)",
         "BasicReadAssignment objects built directly (fields symbolic); ReadAssignmentType fields are symbolic-enum proxies "
         "whose predicate methods are evaluated through the real enum methods",
         "src.multimap_resolver/src.common min/max -> term-building shims"]
ASSUMPTIONS = ["all records of one call belong to one read id (the resolver is called per read)",
               "start <= end, region start <= region end; penalties are exact rationals",
               "isoform sets per record are drawn from {T1}, {T2}, {T1,T2} (consistent/inconsistent) or {} (uninformative)"]
OUTSIDE = ["the merge / ignore_multimapper strategies (isoquant.py hard-codes take_best; they are unreachable from the CLI)",
           "the on-disk hand-off between resolve_multimappers and construct_models_in_parallel (framing: C15)",
           "more than n records per read"]

KEEPS = [["T1"], ["T2"], ["T1", "T2"]]
GENE_OF = {"T1": "G1", "T2": "G2"}


def setup_symbolic():
    shims.install([mr, common], ["min", "max"])


def mk_record(g, i, n_iso_choices=3):
    a = ia.BasicReadAssignment.__new__(ia.BasicReadAssignment)
    a.assignment_id = i
    a.read_id = "read"
    a.chr_code = g.int("chr%d" % i, 0, 1)
    a.chr_id = a.chr_code                       # only compared for equality
    a.start = g.int("start%d" % i, 1)
    a.end = g.int("end%d" % i, 1)
    g.add(a.start <= a.end)
    r0 = g.int("reg%da" % i, 1)
    r1 = g.int("reg%db" % i, 1)
    g.add(r0 <= r1)
    a.genomic_region = (r0, r1)
    a.multimapper = g.bool("secondary%d" % i)
    a.polyA_found = False
    a.assignment_type = SymEnum(g, RT, "type%d" % i, allowed=[m for m in RT if m != RT.suspended])
    a.gene_assignment_type = a.assignment_type
    a.penalty_score = g.real("penalty%d" % i, 0)
    informative = OR(a.assignment_type.is_consistent(), a.assignment_type.is_inconsistent())
    if informative:
        a.isoforms = list(KEEPS[g.choice("isoforms%d" % i, n_iso_choices)])
    else:
        a.isoforms = []
    a.genes = sorted({GENE_OF[t] for t in a.isoforms})
    return a


def copy_record(a):
    b = ia.BasicReadAssignment.__new__(ia.BasicReadAssignment)
    b.__dict__.update(a.__dict__)
    b.isoforms = list(a.isoforms)
    b.genes = list(a.genes)
    return b


def same_key(a, b):
    return AND(a.chr_code == b.chr_code, a.start == b.start, a.end == b.end, a.isoforms == b.isoforms)


def suspended(a):
    return a.assignment_type == RT.suspended


def weight(a, strategy, gene_level):
    """what AssignedFeatureCounter.add_read_info adds in total for this record (real weight functions)"""
    rc = lrc.ReadWeightCounter(strategy)
    feats = a.genes if gene_level else a.isoforms
    t = a.gene_assignment_type if gene_level else a.assignment_type
    k = len(feats)
    if k == 0:
        return 0
    if t == RT.ambiguous:
        return rc.process_ambiguous(k) * k
    if t.is_inconsistent():
        return rc.process_inconsistent(t, k) * k
    if t.is_unique():
        return 1
    return 0


def h_resolve(n, n_iso_choices=3, check_contribution=True):
    def fn(g):
        recs = [mk_record(g, i, n_iso_choices) for i in range(n)]
        orig = [copy_record(a) for a in recs]
        res = mr.MultimapResolver(mr.MultimapResolvingStrategy.take_best)
        call(g, res.resolve, recs)
        T = [o.assignment_type for o in orig]
        cons = [t.is_consistent() for t in T]
        inc = [t.is_inconsistent() for t in T]
        pu = [AND(cons[i], NOT(orig[i].multimapper), T[i] != RT.ambiguous) for i in range(n)]
        pinc = [AND(inc[i], NOT(orig[i].multimapper)) for i in range(n)]
        non = [AND(NOT(cons[i]), NOT(inc[i])) for i in range(n)]
        pen = [o.penalty_score for o in orig]
        ovl = [sym_max(0, sym_min(o.genomic_region[1], o.end) - sym_max(o.genomic_region[0], o.start) + 1) for o in orig]

        def minpen(cls, i):
            return AND(cls[i], AND([IMPLIES(cls[j], pen[i] <= pen[j]) for j in range(n)]))
        any_pu, any_cons, any_pinc, any_inc = OR(pu), OR(cons), OR(pinc), OR(inc)
        top_non = [AND(non[i], AND([IMPLIES(non[j], ovl[i] >= ovl[j]) for j in range(n)])) for i in range(n)]

        def key_le(a, b):
            ka = (a.genomic_region[0], a.chr_code, a.start, a.end)
            kb = (b.genomic_region[0], b.chr_code, b.start, b.end)
            return OR(ka[0] < kb[0], AND(ka[0] == kb[0], OR(ka[1] < kb[1], AND(ka[1] == kb[1], OR(ka[2] < kb[2], AND(ka[2] == kb[2], ka[3] <= kb[3]))))))
        best_non = [AND(top_non[i], AND([IMPLIES(top_non[j], key_le(orig[i], orig[j])) for j in range(n)])) for i in range(n)]
        win = []
        for i in range(n):
            win.append(ITE_b(any_pu, pu[i], ITE_b(any_cons, cons[i], ITE_b(any_pinc, minpen(pinc, i),
                       ITE_b(any_inc, minpen(inc, i), best_non[i])))))
        kept = [NOT(suspended(recs[i])) for i in range(n)]
        informative_case = OR(any_cons, any_inc)
        for i in range(n):
            g.check(IMPLIES(kept[i], win[i]), "a retained alignment belongs to the best priority class")
            g.check(IMPLIES(AND(win[i], informative_case), OR(kept[i], OR([AND(kept[j], same_key(orig[i], orig[j])) for j in range(n) if j != i]))),
                    "every best-class alignment is retained (or an exact duplicate of it is)")
            g.check(IMPLIES(NOT(kept[i]), AND(recs[i].assignment_type == RT.suspended, recs[i].gene_assignment_type == RT.suspended)),
                    "losers are suspended at transcript and gene level")
        g.check(OR(kept), "at least one alignment is retained")
        g.check(IMPLIES(NOT(informative_case), count_true(kept) == 1), "uninformative reads keep exactly one alignment")
        # exact duplicates: of k identical winners exactly one is retained
        for i in range(n):
            for j in range(i + 1, n):
                g.check(IMPLIES(AND(same_key(orig[i], orig[j]), informative_case), NOT(AND(kept[i], kept[j]))),
                        "exact duplicates are reduced to one")
        # ties: several retained loci -> flagged ambiguous at the level where they differ
        iso_union = set()
        multi_iso = []
        for i in range(n):
            pass
        n_kept = count_true(kept)
        for i in range(n):
            others_iso = OR([AND(kept[j], orig[j].isoforms != orig[i].isoforms) for j in range(n) if j != i])
            others_gene = OR([AND(kept[j], orig[j].genes != orig[i].genes) for j in range(n) if j != i])
            multi_self = len(orig[i].isoforms) > 1
            g.check(IMPLIES(AND(kept[i], OR(others_iso, AND(n_kept >= 1, multi_self and informative_case))),
                            AND(recs[i].assignment_type.is_ambiguous(), recs[i].multimapper)),
                    "tied loci are kept and flagged ambiguous (transcript level)")
            g.check(IMPLIES(AND(kept[i], others_gene), AND(recs[i].gene_assignment_type.is_ambiguous(), recs[i].multimapper)),
                    "tied loci are flagged ambiguous (gene level)")
        # total contribution of the read to a count table
        ex = g.excl({"C08-tied-loci-counted-once-each": n_kept >= 2})
        for strategy in (("unique_only", "with_ambiguous", "all") if check_contribution else ()):
            for gene_level in (False, True):
                tot = SUM([ITE(kept[i], weight(recs[i], strategy, gene_level), 0) for i in range(n)])
                g.check(tot <= 1, "the read contributes at most 1 to a count table", exclude=ex,
                        detail={"strategy": strategy, "gene_level": gene_level})
    return fn


def ITE_b(c, a, b):
    return AND(IMPLIES(c, a), IMPLIES(NOT(c), b))


def h_order(n, n_iso_choices=3):
    """the set of retained alignments is the same for every order of the records"""
    def fn(g):
        base = [mk_record(g, i, n_iso_choices) for i in range(n)]
        res = mr.MultimapResolver(mr.MultimapResolvingStrategy.take_best)
        runs = []
        for perm in itertools.permutations(range(n)):
            lst = [copy_record(base[i]) for i in perm]
            call(g, res.resolve, lst)
            by_orig = {perm[k]: lst[k] for k in range(n)}
            runs.append((perm, by_orig))
        p0, r0 = runs[0]
        ex = None
        for perm, r in runs[1:]:
            for i in range(n):
                kept0 = OR([AND(NOT(suspended(r0[j])), same_key(base[i], base[j])) for j in range(n)])
                kept1 = OR([AND(NOT(suspended(r[j])), same_key(base[i], base[j])) for j in range(n)])
                g.check(IFF(kept0, kept1), "retained set independent of record order", exclude=ex, detail={"perm": list(perm)})
                g.check(IMPLIES(AND(NOT(suspended(r0[i])), NOT(suspended(r[i]))),
                                AND(r0[i].assignment_type == r[i].assignment_type,
                                    r0[i].gene_assignment_type == r[i].gene_assignment_type)),
                        "final assignment types independent of record order", detail={"perm": list(perm)})
    return fn


class FakeUnpickler:
    def __init__(self, gene_info, reads):
        self.items = [gene_info] + reads
        self.pos = 0

    def has_next(self): return self.pos < len(self.items)
    def is_gene_info(self): return self.pos == 0
    def is_read_assignment(self): return 0 < self.pos < len(self.items)

    def get_object(self):
        o = self.items[self.pos]
        self.pos += 1
        return o


def h_loader(n):
    """ReadAssignmentLoader.get_next applies the verdict: suspended alignments are dropped, the others
    get the resolved types"""
    import src.dataset_processor as dp

    def fn(g):
        verdicts = []
        reads = []
        for i in range(n):
            v = ia.BasicReadAssignment.__new__(ia.BasicReadAssignment)
            v.assignment_id = g.int("vid%d" % i, 0, n)
            v.chr_id = "chr1" if g.bool("vchr%d" % i) else "chr2"
            v.assignment_type = SymEnum(g, RT, "vtype%d" % i)
            v.gene_assignment_type = SymEnum(g, RT, "vgtype%d" % i)
            v.multimapper = g.bool("vmm%d" % i)
            v.gene_id = "G"
            verdicts.append(v)
            r = ia.ReadAssignment.__new__(ia.ReadAssignment)
            r.read_id = "read"
            r.assignment_id = i
            r.chr_id = "chr1"
            r.assignment_type = RT.unique
            r.gene_assignment_type = RT.unique
            r.multimapper = False
            reads.append(r)
        # verdict ids are distinct per chromosome file (one verdict per saved alignment)
        for i in range(n):
            for j in range(i + 1, n):
                g.add(OR(verdicts[i].assignment_id != verdicts[j].assignment_id, verdicts[i].chr_id != verdicts[j].chr_id))
        ld = dp.ReadAssignmentLoader.__new__(dp.ReadAssignmentLoader)
        ld.unpickler = FakeUnpickler("GI", reads)
        ld.multimapped_chr_dict = {"read": verdicts}
        gi, storage = call(g, ld.get_next)
        for i, r in enumerate(reads):
            mine = [AND(v.assignment_id == i, v.chr_id == "chr1") for v in verdicts]
            present = any(x is r for x in storage)
            for k, v in enumerate(verdicts):
                g.check(IMPLIES(AND(mine[k], v.assignment_type == RT.suspended), not present), "suspended alignment is skipped")
                g.check(IMPLIES(AND(mine[k], v.assignment_type != RT.suspended),
                                present and AND(r.assignment_type == v.assignment_type, r.gene_assignment_type == v.gene_assignment_type,
                                                IFF(r.multimapper, v.multimapper))), "verdict applied to the retained alignment")
            g.check(IMPLIES(NOT(OR(mine)), not present), "alignment without a verdict is not passed on as resolved")
    return fn


def setup_symbolic_c15():
    from props import c15
    c15.setup_symbolic()


_orig_setup = setup_symbolic


def setup_symbolic():  # noqa: F811 - extends the shim set with the byte-stream model of C15
    _orig_setup()
    setup_symbolic_c15()
    from props import handoff
    handoff.setup_symbolic()


def instances(tier, seed):
    q = tier == "quick"
    F = ["src.multimap_resolver:MultimapResolver." + f for f in ("resolve", "select_best_assignment", "select_best_inconsistent",
                                                                  "select_noninformative", "filter_assignments", "find_duplicates",
                                                                  "merge_assignments")] + \
        ["src.isoform_assignment:BasicReadAssignment.__eq__", "src.long_read_counter:ReadWeightCounter.process_ambiguous",
         "src.long_read_counter:ReadWeightCounter.process_inconsistent"]
    out = []
    for n, k in ([(2, 3), (3, 2)] if q else [(2, 3), (3, 3), (4, 2)]):
        out.append(Instance("resolve[n=%d,isoform_choices=%d]" % (n, k), h_resolve(n, k), F, "%d alignments per read" % n,
                            weight=10 ** n, budget_s=1200 if q else 2400))
    for n, k in ([(2, 3), (3, 2)] if q else [(2, 3), (3, 3), (4, 2)]):
        out.append(Instance("order[n=%d,isoform_choices=%d]" % (n, k), h_order(n, k), F, "%d alignments, all %d! orders" % (n, n),
                            weight=20 ** n, budget_s=1200 if q else 2400))
    for n in ((1, 2) if q else (1, 2, 3)):
        out.append(Instance("loader[n=%d]" % n, h_loader(n), ["src.dataset_processor:ReadAssignmentLoader.get_next"],
                            "%d saved alignments of one read, arbitrary verdict list" % n, weight=5 ** n))
    # the hand-off: real collect_reads (counting, prepare_multimapper_dict, resolve_multimappers) in both memory modes
    from props import handoff
    for n in ((2,) if q else (2, 3)):
        out.append(Instance("handoff[alignments=%d]" % n, handoff.h_handoff(n),
                            ["src.dataset_processor:DatasetProcessor.collect_reads", "src.dataset_processor:DatasetProcessor.prepare_multimapper_dict",
                             "src.dataset_processor:DatasetProcessor.resolve_multimappers", "src.isoform_assignment:BasicReadAssignment.serialize"],
                            "%d alignments with solver-chosen read id / chromosome / class / secondary flag, symbolic coordinates; default and --high_memory" % n,
                            weight=3000 * n, budget_s=1800))
    # the two resolution inputs agree: compact record read from the intermediate file (default mode) ==
    # compact record built in memory (--high_memory); harness shared with C15, spliced reads
    from props import c15
    for sh in ([(2, 1, 0, 0, False)] if q else [(2, 1, 0, 0, False), (3, 2, 1, 0, False)]):
        for variant in ((0,) if q else (0, 1, 2)):
            out.append(Instance("compact_record[exons=%d,matches=%d,strings=%d]" % (sh[0], sh[1], variant),
                                c15.h_assignment(*(sh + (variant, seed % 8))),
                                ["src.isoform_assignment:BasicReadAssignment.deserialize_from_read_assignment",
                                 "src.isoform_assignment:BasicReadAssignment.__init__", "src.isoform_assignment:ReadAssignment.serialize"],
                                "spliced read record, all numeric fields symbolic", weight=200, budget_s=1200))
    return out
