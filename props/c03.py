"""C03 - output annotations are well-formed and reproduce reference transcripts verbatim."""
import io
import re

import src.transcript_printer as transcript_printer
import src.graph_based_model_construction as gbmc
import src.common as common
import src.id_policy as id_policy
from src.gene_info import GeneInfo, TranscriptModel, TranscriptModelType

from props import readfam
from vlib import shims
from vlib.runner import Instance
from vlib.spec import AND, OR, NOT, ITE, IMPLIES, IFF, SUM, call, sorted_disjoint, interval_list

PROPERTY = "C03"
EXPLANATION = ("GFFPrinter.dump runs on models whose exon coordinates are symbolic and NOT assumed valid (invalid chains must be dropped, "
               "not printed); the GTF text is parsed back through sentinel tokens and z3 proves the well-formedness obligations on the "
               "parsed records. Reference transcripts go through the real GeneInfo.from_models / TranscriptModel.from_reference_transcript "
               "and the printer and must come back verbatim; correct_novel_transcript_ends runs on symbolic supporting read ends; "
               "create_extended_storage is run for a chromosome without annotated genes.")
STUBS = ["gene_info for novel-only dumps -> minimal fake; gffutils database -> fake", "GTF text: %d fields are sentinel tokens",
         "src.graph_based_model_construction set/defaultdict -> association-list shims (read ends are symbolic)"]
ASSUMPTIONS = ["chromosome length is not known to the printer: end <= chromosome length is checked only for reference copies (verbatim)"]
OUTSIDE = ["merge order of per-chromosome files (C06)", "annotations outside the catalogue"]


def setup_symbolic():
    shims.install([common], ["float"])
    shims.install([common, transcript_printer], ["min", "max"])
    shims.install([gbmc], ["set", "defaultdict", "min", "max"])


class Obj:
    def __init__(self, **kw):
        self.__dict__.update(kw)


def parse_gtf(g, text):
    recs = []
    for line in text.splitlines():
        if line.startswith("#") or not line.strip():
            continue
        fs = line.split("\t")
        attrs = dict(re.findall(r'(\w+) "([^"]*)";', fs[8]))
        recs.append(Obj(chr=fs[0], type=fs[2], start=g.unsentinel(fs[3]), end=g.unsentinel(fs[4]), strand=fs[6], attrs=attrs))
    return recs


def new_printer():
    p = transcript_printer.GFFPrinter.__new__(transcript_printer.GFFPrinter)
    p.out_gff = io.StringIO()
    p.output_r2t = False
    p.exon_id_storage = id_policy.FeatureIdStorage(id_policy.SimpleIDDistributor())
    p.exon_id_storage.id_dict = shims.SymDict()
    p.printed_gene_ids = set()
    return p


def check_records(g, recs, expected_models, containment_exclude=None):
    """expected_models: list of (transcript_id, gene_id, strand, exons) that must be printed"""
    tr = [r for r in recs if r.type == "transcript"]
    genes = [r for r in recs if r.type == "gene"]
    g.check(len({r.attrs["transcript_id"] for r in tr}) == len(tr), "each transcript record appears once")
    g.check(len({r.attrs["gene_id"] for r in genes}) == len(genes), "each gene record appears once")
    g.check(sorted(r.attrs["transcript_id"] for r in tr) == sorted(m[0] for m in expected_models), "exactly the valid models are printed",
            detail={"printed": [r.attrs["transcript_id"] for r in tr]})
    for tid, gid, strand, exons in expected_models:
        t = [r for r in tr if r.attrs["transcript_id"] == tid]
        ex = [r for r in recs if r.type == "exon" and r.attrs["transcript_id"] == tid]
        if len(t) != 1:
            continue
        t = t[0]
        g.check(len(ex) == len(exons) and len(ex) >= 1, "a transcript has at least one exon and all its exons are printed")
        exs = sorted_by_start(ex, strand)
        g.check(AND([AND(a.start == b[0], a.end == b[1]) for a, b in zip(exs, exons)]), "printed exons = model exons (reference coordinates verbatim)")
        g.check(AND([AND(1 <= a.start, a.start <= a.end) for a in ex]), "1 <= start <= end for every exon")
        g.check(AND([exs[i].end < exs[i + 1].start for i in range(len(exs) - 1)] or [True]), "exons sorted and non-overlapping")
        g.check(AND(t.start == exons[0][0], t.end == exons[-1][1]), "the transcript record spans exactly its exons")
        g.check(t.strand == strand and all(e.strand == strand for e in ex) and t.attrs["gene_id"] == gid, "strand and gene of the model are printed verbatim")
        gr = [r for r in genes if r.attrs["gene_id"] == gid]
        g.check(len(gr) == 1, "the gene record of a printed transcript exists exactly once")
        if len(gr) == 1:
            g.check(AND(gr[0].start <= t.start, t.end <= gr[0].end, gr[0].chr == t.chr), "the gene record contains its transcripts, same chromosome",
                    exclude=containment_exclude)


def sorted_by_start(ex, strand):
    return list(reversed(ex)) if strand == "-" else list(ex)


def h_dump_symbolic(n_models, n_exons):
    def fn(g):
        shims.CURRENT["g"] = g if g.symbolic else None
        models, expected = [], []
        for i in range(n_models):
            ex = []
            for k in range(n_exons):
                a, b = g.int("m%d_e%da" % (i, k)), g.int("m%d_e%db" % (i, k))
                ex.append((a, b))
            strand = "+" if g.bool("m%d_plus" % i) else "-"
            gene = "G%d" % g.choice("m%d_gene" % i, 2)
            m = TranscriptModel("chr1", strand, "T%d" % i, gene, ex, TranscriptModelType.novel_not_in_catalog)
            models.append(m)
            valid = AND(ex[0][0] >= 1, AND([e[0] <= e[1] for e in ex]), AND([ex[k][1] < ex[k + 1][0] for k in range(n_exons - 1)] or [True]))
            if valid:           # fork: the harness follows the code's own accept/reject decision per model
                expected.append(("T%d" % i, gene, strand, ex))
        # models of one gene share a strand (the joiner's invariant)
        for i in range(n_models):
            for j in range(i):
                if models[i].gene_id == models[j].gene_id and models[i].strand != models[j].strand:
                    g.assume(False)
        p = new_printer()
        gi = Obj(chr_id="chr1", feature_attributes={}, sources={}, empty=lambda: True, get_gene_regions=lambda: {})
        call(g, p.dump, gi, models)
        recs = parse_gtf(g, p.out_gff.getvalue())
        check_records(g, recs, expected)
    return fn


def h_dump_two_regions(g):
    """one gene processed in two regions of a split locus: GFFPrinter.dump is called twice with one model each (the gene record is
    printed by the first call); the records of both calls together must still be well formed"""
    shims.CURRENT["g"] = g if g.symbolic else None
    p = new_printer()
    gi = Obj(chr_id="chr1", feature_attributes={}, sources={}, empty=lambda: True, get_gene_regions=lambda: {})
    expected = []
    spans = []
    for i in range(2):
        a, b = g.int("region%d_model_start" % i, 1), g.int("region%d_model_end" % i, 1)
        g.add(a + 10 <= b)
        m = TranscriptModel("chr1", "+", "T%d" % i, "G0", [(a, b)], TranscriptModelType.novel_not_in_catalog)
        call(g, p.dump, gi, [m])
        expected.append(("T%d" % i, "G0", "+", [(a, b)]))
        spans.append((a, b))
    recs = parse_gtf(g, p.out_gff.getvalue())
    # known finding: the gene line is written when the gene is first seen; a transcript of a later region that extends beyond it is not contained
    ex = g.excl({"C03-gene-record-fixed-by-first-region": OR(spans[1][0] < spans[0][0], spans[1][1] > spans[0][1])})
    check_records(g, recs, expected, containment_exclude=ex)


def h_extended_written_for_every_chromosome(g):
    """the real construct_models_in_parallel for a chromosome of an annotated run in which NO novel model was built: the extended
    annotation of that chromosome is still written from the reference models (otherwise its genes vanish from the merged file)"""
    import os
    import shutil
    import src.dataset_processor as dp
    import src.serialization as ser
    from props import c10, c17, flblock
    d = os.path.join(c10.scratch(), "c03ext")
    shutil.rmtree(d, ignore_errors=True)
    os.makedirs(d)
    dumps = []

    class Printer:
        def __init__(self, out_dir, prefix, exon_id_storage, gtf_suffix=".transcript_models.gtf", **kw):
            self.suffix = gtf_suffix

        def dump(self, gene_info, models):
            dumps.append((self.suffix, list(models)))

        def __getattr__(self, name):
            return lambda *a, **k: None
    check_canonical = bool(g.bool("check_canonical"))
    saved = (dp.Fasta, dp.ReadAssignmentAggregator, dp.ReadAssignmentLoader, dp.GFFPrinter, dp.gffutils, dp.create_extended_storage, dp.IOSupport)
    dp.Fasta = lambda *a, **k: {"chr1": "ACGT" * 50}
    dp.ReadAssignmentAggregator = lambda *a, **k: c10.NoOp(read_stat_counter=dp.EnumStats(), global_counter=c10.NoOp(), transcript_model_global_counter=c10.NoOp(),
                                                           global_printer=c10.NoOp())
    dp.ReadAssignmentLoader = c10.FakeLoader
    dp.GFFPrinter = Printer
    dp.gffutils = Obj(FeatureDB=lambda path: c17.FakeDB())
    dp.create_extended_storage = lambda db, chr_id, rec, novel: (["REFERENCE_MODELS_OF_" + chr_id] + list(novel), Obj(chr_id=chr_id))
    dp.IOSupport = lambda args: c10.NoOp()
    old = flblock.get_reported()
    try:
        args = Obj(no_model_construction=False, reference="ref.fa", fai_file_name=None, resume=False, genedb="annotation.db", check_canonical=check_canonical,
                   sqanti_output=False)
        dump = os.path.join(d, "smp.save")
        with open(dump + "_multimappers_chr1", "wb") as fh:
            ser.write_int(ser.TERMINATION_INT, fh)
        sample = Obj(out_dir=d, prefix="smp", out_t2t_tsv=os.path.join(d, "t2t.tsv"))
        call(g, dp.construct_models_in_parallel, sample, "chr1", dump, args, ["NA"])
    finally:
        dp.Fasta, dp.ReadAssignmentAggregator, dp.ReadAssignmentLoader, dp.GFFPrinter, dp.gffutils, dp.create_extended_storage, dp.IOSupport = saved
        flblock.set_reported(old)
    ext = [m for sfx, m in dumps if sfx == ".extended_annotation.gtf"]
    g.check(len(ext) == 1 and ext[0] == ["REFERENCE_MODELS_OF_chr1"],
            "the extended annotation of a chromosome without novel models is written from its reference models", detail={"dumps": str(dumps)[:200]})


def h_reference_verbatim(locus):
    def fn(g):
        shims.CURRENT["g"] = g if g.symbolic else None
        gi = readfam.build_locus(locus, 6)
        gi.other_features = {t: [] for t in gi.all_isoforms_exons}
        gi.feature_attributes = {}
        regions = {}
        for t, gid, strand, ex in readfam.LOCI[locus]:
            lo, hi = regions.get(gid, (ex[0][0], ex[-1][1]))
            regions[gid] = (min(lo, ex[0][0]), max(hi, ex[-1][1]))
        gi.get_gene_regions = lambda: dict(regions)
        gi.empty = lambda: False
        models = [call(g, TranscriptModel.from_reference_transcript, gi, t) for t in gi.all_isoforms_exons]
        # one novel model with symbolic ends on top of the reference ones
        ref = readfam.LOCI[locus][0]
        s, e = g.int("novel_start", 1, ref[3][0][1] - 1), g.int("novel_end", ref[3][-1][0] + 1, ref[3][-1][1] + 500)
        nov_ex = [(s, ref[3][0][1])] + list(ref[3][1:-1]) + [(ref[3][-1][0], e)] if len(ref[3]) > 1 else [(s, e)]
        nov = TranscriptModel("chr1", ref[2], "transcript7.chr1.nnic", ref[1], nov_ex, TranscriptModelType.novel_not_in_catalog)
        p = new_printer()
        order = g.choice("novel_model_position", len(models) + 1)
        allm = models[:order] + [nov] + models[order:]
        call(g, p.dump, gi, allm)
        recs = parse_gtf(g, p.out_gff.getvalue())
        expected = [(t, gid, strand, ex) for t, gid, strand, ex in readfam.LOCI[locus]] + [("transcript7.chr1.nnic", ref[1], ref[2], nov_ex)]
        check_records(g, recs, expected)
    return fn


def h_end_correction(n_reads):
    def fn(g):
        params = Obj(apa_delta=50)
        ex = [(1000, 1200), (2000, 2150), (3000, 3300)]
        m = TranscriptModel("chr1", "+", "T", "G", list(ex), TranscriptModelType.novel_not_in_catalog)
        reads = []
        for i in range(n_reads):
            s, e = g.int("read%d_start" % i, 1, 2500), g.int("read%d_end" % i, 2600, 5000)
            reads.append(Obj(corrected_exons=[(s, 2150), (3000, e)] if False else [(s, s + 10), (e - 10, e)]))
        c = gbmc.GraphBasedModelConstructor.__new__(gbmc.GraphBasedModelConstructor)
        c.params = params
        call(g, c.correct_novel_transcript_ends, m, reads)
        out = m.exon_blocks
        g.check(AND(out[0][0] <= out[0][1], out[-1][0] <= out[-1][1]), "end correction never produces start > end")
        g.check(AND(out[0][1] == 1200, out[-1][0] == 3000, out[1][0] == 2000, out[1][1] == 2150), "end correction never moves a splice site")
        g.check(AND(out[0][0] >= 1000, out[-1][1] <= 3300), "end correction only trims unsupported ends")
        g.check(OR(out[0][0] == 1000, OR([out[0][0] == r.corrected_exons[0][0] for r in reads])), "a corrected start is the start of a supporting read")
        g.check(OR(out[-1][1] == 3300, OR([out[-1][1] == r.corrected_exons[-1][1] for r in reads])), "a corrected end is the end of a supporting read")
    return fn


def h_joiner(n_novel):
    """TranscriptToGeneJoiner.join_transcripts: novel models (own novel genes, symbolic coordinates and strands) next to one
    reference gene: after joining, the transcripts attributed to one gene share its strand"""
    def fn(g):
        ref_exons = [(1000, 1200), (2000, 2150), (2800, 3000)]
        # reference gene ids as they occur in annotations: some sort before "novel_gene_...", some after it
        G1 = ["G1", "zfp1"][g.choice("reference_gene_id", 2)]
        gi = Obj(gene_strands={G1: "+"}, gene_id_map={"REF1": G1}, all_isoforms_introns={"REF1": common.junctions_from_blocks(ref_exons)},
                 get_gene_regions=lambda: {G1: (1000, 3000)})
        models = [TranscriptModel("chr1", "+", "REF1", G1, list(ref_exons), TranscriptModelType.known)]
        for i in range(n_novel):
            strand = "+" if g.bool("novel%d_plus" % i) else "-"
            s_ = g.int("novel%d_start" % i, 500, 3400)
            if g.bool("novel%d_spliced" % i):
                a = g.int("novel%d_donor" % i, 500, 3400)
                b = g.int("novel%d_acceptor" % i, 500, 3400)
                e_ = g.int("novel%d_end" % i, 500, 3500)
                g.add(AND(s_ < a, a + 30 < b, b < e_))
                ex = [(s_, a), (b, e_)]
            else:
                e_ = g.int("novel%d_end" % i, 500, 3500)
                g.add(s_ + 50 <= e_)
                ex = [(s_, e_)]
            models.append(TranscriptModel("chr1", strand, "transcript%d.chr1.nnic" % i, "novel_gene_chr1_%d" % (100 + i), ex,
                                          TranscriptModelType.novel_not_in_catalog))
        j = call(g, gbmc.TranscriptToGeneJoiner, models, gi)
        call(g, j.join_transcripts)
        by_gene = {}
        for m in models:
            by_gene.setdefault(m.gene_id, []).append(m)
        for gid, ms in by_gene.items():
            g.check(len({m.strand for m in ms}) == 1, "all transcripts attributed to one gene lie on one strand",
                    detail={"gene": gid, "members": [(m.transcript_id, m.strand) for m in ms]})
            if gid == G1:
                g.check(all(m.strand == "+" for m in ms), "transcripts joined to a reference gene lie on the reference gene's strand")
        g.check(any(m.transcript_id == "REF1" and m.gene_id == G1 for m in models), "a reference transcript keeps its reference gene",
                detail={"reference_gene": G1, "genes_after_joining": sorted({m.gene_id for m in models})})
    return fn


class EmptyDB:
    def region(self, **kw):
        return iter([])


def h_extended_no_genes(g):
    """a chromosome without annotated genes: extended annotation = exactly the novel models"""
    n = 1 + g.choice("n_novel_models", 3)
    novel = [TranscriptModel("chrU", "+", "transcript%d.chrU.nnic" % i, "novel_gene_chrU_%d" % i, [(10 + 100 * i, 50 + 100 * i)],
                             TranscriptModelType.novel_not_in_catalog) for i in range(n)]
    allm, gi = call(g, transcript_printer.create_extended_storage, EmptyDB(), "chrU", "A" * 1000, novel)
    g.check([m.transcript_id for m in allm] == [m.transcript_id for m in novel] and all(a is b for a, b in zip(allm, novel)),
            "extended annotation of an unannotated chromosome consists of exactly the novel models, coordinates identical")


def instances(tier, seed):
    q = tier == "quick"
    T = "src.transcript_printer:"
    out = []
    for nm, ne in ([(1, 2), (2, 2), (1, 3)] if q else [(1, 1), (1, 2), (2, 2), (1, 3), (2, 3), (3, 2)]):
        out.append(Instance("dump[models=%d,exons=%d]" % (nm, ne), h_dump_symbolic(nm, ne), [T + "GFFPrinter.dump", T + "validate_exons", "src.common:max_range"],
                            "%d models x %d exons, coordinates symbolic and unconstrained" % (nm, ne), weight=20 ** (nm * ne), budget_s=1800))
    # a reference isoform reproduced in two regions of one chromosome is written once (shared with C10)
    from props import c10
    out.append(Instance("known_isoform_once_per_chromosome", c10.h_known_isoform_reported,
                        ["src.graph_based_model_construction:GraphBasedModelConstructor.__init__",
                         "src.graph_based_model_construction:GraphBasedModelConstructor.construct_fl_isoforms"],
                        "the same locus handled by two constructors of one chromosome run, symbolic read count", weight=20))
    out.append(Instance("extended_annotation_without_novel_models", h_extended_written_for_every_chromosome,
                        ["src.dataset_processor:construct_models_in_parallel"], "one chromosome run with annotation and no novel model (collaborators faked)", weight=5))
    out.append(Instance("dump_two_regions", h_dump_two_regions, [T + "GFFPrinter.dump"],
                        "one gene, two dump calls (two regions of a split locus) with one mono-exonic model each, symbolic coordinates", weight=20))
    for locus in (["skip", "antisense", "alt_ends"] if q else sorted(readfam.LOCI)):
        out.append(Instance("reference_verbatim[%s]" % locus, h_reference_verbatim(locus),
                            ["src.gene_info:TranscriptModel.from_reference_transcript", "src.gene_info:GeneInfo.from_models", T + "GFFPrinter.dump"],
                            "catalogue locus %s + one novel model with symbolic ends, any position in the model list" % locus, weight=50, budget_s=900))
    for n in ((1, 2) if q else (1, 2, 3)):
        out.append(Instance("end_correction[%d]" % n, h_end_correction(n), ["src.graph_based_model_construction:GraphBasedModelConstructor.correct_novel_transcript_ends"],
                            "%d supporting reads with symbolic ends" % n, weight=30 ** n, budget_s=1200))
    for n in (1, 2):          # 3 novel models: 26 000 CPU s and ~2 500 solver timeouts on the jaccard ratios - dropped, outside the claim
        out.append(Instance("gene_joiner[novel=%d]" % n, h_joiner(n), ["src.graph_based_model_construction:TranscriptToGeneJoiner.join_transcripts",
                                                                       "src.graph_based_model_construction:TranscriptToGeneJoiner.count_score",
                                                                       "src.graph_based_model_construction:TranscriptToGeneJoiner.merge_genes", "src.common:jaccard_similarity"],
                            "%d novel models with symbolic coordinates / strand / spliced-or-not next to one reference gene" % n, weight=200 * 5 ** n, budget_s=1800))
    out.append(Instance("extended_without_genes", h_extended_no_genes, [T + "create_extended_storage", "src.gene_info:GeneInfo.from_region"],
                        "1-3 novel models on a chromosome without genes", weight=5))
    return out
