"""C02 - expression tables equal the documented weighting of reported read assignments."""
import os
import shutil
import tempfile

import src.long_read_counter as lrc
import src.file_utils as file_utils
import src.isoform_assignment as ia
import src.dataset_processor as dp
import src.graph_based_model_construction as gbmc
from src.alignment_processor import AlignmentType

from vlib import shims, symx
from vlib.symenum import SymEnum
from vlib.runner import Instance
from vlib.spec import AND, OR, NOT, ITE, IMPLIES, IFF, SUM, BOOL2INT, call, count_true

PROPERTY = "C02"
RT = ia.ReadAssignmentType
EXPLANATION = ("One inductive step from an ARBITRARY counter state: accumulated values are fresh symbolic reals, the "
               "read/ambiguous/unassigned counters fresh symbolic ints; one read with a symbolic assignment type (enum "
               "proxy) and a solver-chosen feature set is added by the real AssignedFeatureCounter; z3 proves post = pre + "
               "documented weight for every strategy and level. dump / merge_counts / convert_counts_to_tpm are run on "
               "real files whose numbers are sentinel tokens mapped back to the symbolic terms.")
STUBS = ["numbers printed with %d / %.2f / %.6f are unique sentinel tokens that the harness parses back into the symbolic terms",
         "src.long_read_counter.float, src.file_utils.int -> shims that read sentinel text back as the symbolic value",
         "read assignment / gene_info / DatasetProcessor / aggregator objects are minimal fakes carrying symbolic fields"]
ASSUMPTIONS = ["counter values are arbitrary non-negative reals (the inductive hypothesis is 'any state')",
               "unique / unique_minor_difference assignments carry exactly one feature",
               "floats are exact rationals; the 2-decimal rounding of %.2f and the 6-decimal rounding of TPM are outside the claim",
               "weights per docs/cmd.md: unique 1; ambiguous 1/k only under with_ambiguous/all; inconsistent_non_intronic (one feature) "
               "under unique_splicing_consistent/unique_inconsistent/all; inconsistent (one feature) under unique_inconsistent/all; "
               "inconsistent with several features 1/k only under all"]
OUTSIDE = ["pandas combine_counts (C10)", "concatenation order of per-chromosome files (C06)", "rounding of printed values"]

FEATS = ["F1", "F2", "F3"]
STRATEGIES = ["unique_only", "with_ambiguous", "unique_splicing_consistent", "unique_inconsistent", "all"]
_tmp = {"dir": None}


def setup_symbolic():
    shims.install([lrc], ["float"])
    shims.install([file_utils], ["int"])


def tmpdir():
    if _tmp["dir"] is None or not os.path.isdir(_tmp["dir"]):
        _tmp["dir"] = tempfile.mkdtemp(prefix="verif_c02_")
        import atexit
        atexit.register(shutil.rmtree, _tmp["dir"], True)
    return _tmp["dir"]


def fresh_prefix(name):
    d = os.path.join(tmpdir(), name)
    if os.path.isdir(d):
        shutil.rmtree(d)
    os.makedirs(d)
    return os.path.join(d, "smp")


class Obj:
    def __init__(self, **kw):
        self.__dict__.update(kw)


def doc_weight(strategy, t, k):
    """documented weight per feature for a read of (symbolic) type t assigned to k features"""
    amb = strategy in ("with_ambiguous", "all")
    if k == 0:
        return 0
    is_unique = t.is_unique()
    w_unique = 1
    w_amb = (1 if k == 1 else (1 / float_(k) if amb else 0))
    if k == 1:
        w_inc_plain = 1 if strategy in ("unique_inconsistent", "all") else 0
        w_inc_nonintronic = 1 if strategy in ("unique_splicing_consistent", "unique_inconsistent", "all") else 0
        w_inc_amb = (1 / float_(k)) if strategy == "all" else 0
    else:
        w_inc_plain = w_inc_nonintronic = w_inc_amb = (1 / float_(k)) if strategy == "all" else 0
    return ITE(is_unique, w_unique,
               ITE(t == RT.ambiguous, w_amb,
                   ITE(t == RT.inconsistent, w_inc_plain,
                       ITE(t == RT.inconsistent_non_intronic, w_inc_nonintronic,
                           ITE(t == RT.inconsistent_ambiguous, w_inc_amb, 0)))))


def float_(k):
    # the implementation divides doubles (1.0 / k); the specification uses the same correctly rounded
    # double so that both sides are the same exact rational inside the solver
    return float(k)


def h_add_read(strategy, gene_level, k):
    def fn(g):
        g.batch = True
        shims.CURRENT["g"] = g if g.symbolic else None
        mk = lrc.create_gene_counter if gene_level else lrc.create_transcript_counter
        c = mk(fresh_prefix("add"), strategy)
        pre = {}
        for f in FEATS:
            pre[f] = g.real("pre_" + f, 0)
            c.feature_counter[f].data = {0: pre[f]}
        c.all_features = set(FEATS)
        conf_bits = 6 * g.choice("confirmed_subset", 2)     # none, or {F2, F3}
        c.confirmed_features = {f for i, f in enumerate(FEATS) if conf_bits >> i & 1}
        conf0 = set(c.confirmed_features)
        n_amb, n_tpm, n_na = g.int("ambiguous_reads", 0), g.int("reads_for_tpm", 0), g.int("not_assigned", 0)
        c.ambiguous_reads, c.reads_for_tpm, c.not_assigned_reads = n_amb, n_tpm, n_na
        tt = SymEnum(g, RT, "type", allowed=[m for m in RT if m != RT.suspended])
        tg = SymEnum(g, RT, "gene_type", allowed=[m for m in RT if m != RT.suspended])
        # relation established by ReadAssignment.__init__: the gene-level type is the transcript-level one, except
        # that an (inconsistent_)ambiguous read whose isoforms share one gene is unique / inconsistent for the gene
        g.add(OR(tg == tt, AND(tt == RT.ambiguous, tg == RT.unique), AND(tt == RT.inconsistent_ambiguous, tg == RT.inconsistent)))
        tpicks = [g.choice("transcript%d" % i, 3) for i in range(k)]
        gpicks = [g.choice("gene%d" % i, 2) for i in range(k)]
        for i in range(k):
            for j in range(i):
                if tpicks[i] == tpicks[j] and gpicks[i] != gpicks[j]:
                    g.assume(False)
        t = tg if gene_level else tt
        feats = [FEATS[p] for p in (gpicks if gene_level else tpicks)]
        distinct = sorted(set(feats))
        nd = len(distinct)
        if nd != 1:
            g.assume(NOT(t.is_unique()))
        if len(set(tpicks)) != 1:
            g.assume(NOT(tt.is_unique()))
        if len(set(gpicks)) != 1:
            g.assume(NOT(tg.is_unique()))
        if len(set(gpicks)) > 1:
            g.assume(AND(NOT(AND(tt == RT.ambiguous, tg == RT.unique)), NOT(AND(tt == RT.inconsistent_ambiguous, tg == RT.inconsistent))))
        spliced = bool(g.bool("corrected_alignment_spliced"))
        mono_ref = bool(g.bool("reference_transcript_is_monoexonic"))
        matches = [Obj(assigned_gene=FEATS[gp], assigned_transcript=FEATS[tp]) for gp, tp in zip(gpicks, tpicks)]
        gi = Obj(all_isoforms_introns={f: ([] if mono_ref else [(10, 20)]) for f in FEATS})
        ra = Obj(read_id="r", assignment_type=tt, gene_assignment_type=tg, isoform_matches=matches, read_group="NA",
                 gene_info=gi, corrected_exons=[(1, 9), (21, 30)] if spliced else [(1, 30)])
        call(g, c.add_read_info, ra)
        unassigned = OR(tt.is_unassigned(), k == 0)
        for f in FEATS:
            post = c.feature_counter[f].get(0)
            w = doc_weight(strategy, t, nd) if f in distinct else 0
            g.check(post == pre[f] + ITE(unassigned, 0, w), "accumulated value = previous value + documented weight",
                    detail={"strategy": strategy, "gene_level": gene_level, "feature": f, "features": feats})
        tot = SUM([c.feature_counter[f].get(0) - pre[f] for f in FEATS])
        g.check(AND(tot <= 1, tot >= 0), "one read adds a total weight in [0, 1] to the table")
        g.check(c.not_assigned_reads == n_na + ITE(unassigned, 1, 0), "__no_feature counts exactly the unassigned reads")
        g.check(c.ambiguous_reads == n_amb + ITE(AND(NOT(unassigned), t == RT.ambiguous), 1, 0), "__ambiguous counts exactly the ambiguous reads")
        g.check(c.reads_for_tpm == n_tpm + ITE(unassigned, 0, 1), "__usable counts the assigned reads")
        # confirmation rule: a uniquely assigned read with a spliced corrected alignment confirms its feature
        if nd == 1:
            f = distinct[0]
            g.check(IMPLIES(AND(t.is_unique(), spliced, NOT(unassigned)), f in c.confirmed_features),
                    "a feature with a uniquely assigned spliced read is confirmed (never zeroed)")
        g.check(conf0 <= c.confirmed_features, "confirmed features are never withdrawn")
        call(g, c.add_read_info, None)
        g.check(c.not_aligned_reads == 1, "__not_aligned counts reads without alignment")
    return fn


def parse_counts(g, path):
    vals, stats = {}, {}
    with open(path) as fh:
        for line in fh:
            if line.startswith("#"):
                continue
            fs = line.rstrip("\n").split("\t")
            if fs[0].startswith("__"):
                stats[fs[0]] = g.unsentinel(int(float(fs[1])))
            else:
                vals[fs[0]] = [g.unsentinel_real(x) for x in fs[1:]]
    return vals, stats


def h_dump(strategy):
    def fn(g):
        shims.CURRENT["g"] = g if g.symbolic else None
        c = lrc.create_transcript_counter(fresh_prefix("dump"), strategy)
        val = {}
        for f in FEATS:
            val[f] = g.real("count_" + f, 0)
            c.feature_counter[f].data = {0: val[f]}
        c.all_features = set(FEATS)
        conf_bits = g.choice("confirmed_subset", 8)
        c.confirmed_features = {f for i, f in enumerate(FEATS) if conf_bits >> i & 1}
        c.ambiguous_reads, c.not_assigned_reads, c.not_aligned_reads, c.reads_for_tpm = \
            g.int("amb", 0), g.int("nofeat", 0), g.int("notal", 0), g.int("usable", 0)
        exp = (c.ambiguous_reads, c.not_assigned_reads, c.not_aligned_reads, c.reads_for_tpm)
        call(g, c.dump)
        vals, _ = parse_counts(g, c.output_counts_file_name)
        for f in FEATS:
            g.check(f in vals and len(vals[f]) == 1, "every feature has one row in the table")
            if f in vals:
                g.check(vals[f][0] == (val[f] if f in c.confirmed_features else 0),
                        "printed value = accumulated value if the feature is confirmed, else zero")
        st = {}
        for line in open(c.output_stats_file_name):
            a, b = line.split()
            st[a] = g.unsentinel(int(b))
        g.check(AND(st["__ambiguous"] == exp[0], st["__no_feature"] == exp[1], st["__not_aligned"] == exp[2], st["__usable"] == exp[3]),
                "stats lines equal the read counters")
    return fn


def write_counts_file(g, path, values, stats=None):
    with open(path, "w") as fh:
        fh.write("#feature_id\tcount\n")
        for f, v in values:
            fh.write("%s\t%.2f\n" % (f, v))
        for k_, v in (stats or []):
            fh.write("%s\t%d\n" % (k_, v))


def h_tpm(n, usable):
    def fn(g):
        shims.CURRENT["g"] = g if g.symbolic else None
        c = lrc.create_transcript_counter(fresh_prefix("tpm"), "unique_only")
        vals = [("F%d" % i, g.real("count%d" % i, 0)) for i in range(n)]
        write_counts_file(g, c.output_counts_file_name, vals, [("__ambiguous", 0), ("__no_feature", 0), ("__not_aligned", 0)])
        total = SUM([v for _, v in vals])
        R = g.int("reads_for_tpm", 0)
        c.reads_for_tpm = R
        if usable:
            g.assume(R >= 1)
            g.add(total <= R)
        call(g, c.convert_counts_to_tpm, "usable_reads" if usable else "simple")
        out = {}
        for line in open(c.output_tpm_file_name):
            if line.startswith("#"):
                continue
            a, b = line.rstrip("\n").split("\t")
            out[a] = g.unsentinel_real(b)
        denom = R if usable else total
        for f, v in vals:
            g.check(f in out, "every feature has a TPM row")
            if f in out:
                g.check(IMPLIES(denom > 0, out[f] * denom == v * 1000000), "TPM = count rescaled by 10^6 / total (ratios preserved)",
                        detail={"normalisation": "usable_reads" if usable else "simple"})
                g.check(IMPLIES(total == 0, out[f] == 0), "all-zero table gives zero TPM")
        if not usable:
            g.check(IMPLIES(total > 0, SUM([out.get(f, 0) for f, _ in vals]) == 1000000), "TPM values sum to 10^6")
        else:
            g.check(SUM([out.get(f, 0) for f, _ in vals]) + out.get("__unassigned", 0) == 1000000,
                    "TPM values plus __unassigned sum to 10^6 (usable_reads)")
    return fn


def h_add_raw(k):
    """transcript-model counts: add_read_info_raw / add_unassigned / add_confirmed_features"""
    def fn(g):
        shims.CURRENT["g"] = g if g.symbolic else None
        strategy = STRATEGIES[g.choice("strategy", len(STRATEGIES))]
        c = lrc.create_transcript_counter(fresh_prefix("raw"), strategy)
        pre = {}
        for f in FEATS:
            pre[f] = g.real("pre_" + f, 0)
            c.feature_counter[f].data = {0: pre[f]}
        n_amb, n_tpm, n_na = g.int("ambiguous_reads", 0), g.int("reads_for_tpm", 0), g.int("not_assigned", 0)
        c.ambiguous_reads, c.reads_for_tpm, c.not_assigned_reads = n_amb, n_tpm, n_na
        # forward_counts passes each model a read supports once
        subset = g.choice("feature_subset", 8)
        feats = [f for i, f in enumerate(FEATS) if subset >> i & 1][:k]
        call(g, c.add_read_info_raw, "r", feats, "NA")
        nd = len(feats)
        amb = strategy in ("with_ambiguous", "all")
        for f in FEATS:
            w = 0
            if f in feats:
                w = 1 if nd == 1 else ((1 / float_(nd)) if amb else 0)
            g.check(c.feature_counter[f].get(0) == pre[f] + w, "model count = previous + (1 | 1/k | 0)",
                    detail={"strategy": strategy, "features": feats})
        g.check(c.not_assigned_reads == n_na + (1 if nd == 0 else 0), "__no_feature (models)")
        g.check(c.ambiguous_reads == n_amb + (1 if nd > 1 else 0), "__ambiguous (models)")
        g.check(c.reads_for_tpm == n_tpm + (1 if nd >= 1 else 0), "__usable (models)")
        m = g.int("n_unassigned", 0)
        call(g, c.add_unassigned, m)
        g.check(AND(c.not_assigned_reads == n_na + (1 if nd == 0 else 0) + m, c.reads_for_tpm == n_tpm + (1 if nd >= 1 else 0) + m),
                "add_unassigned")
    return fn


def h_forward_counts(n_reads, n_models=2, delete=False):
    """GraphBasedModelConstructor bookkeeping: reads are attached to models by the real save_assigned_read, a solver-chosen
    model is discarded by the real delete_from_storage (as the model filters do), then forward_counts: every read
    supporting surviving models is counted once, shared between the models it supports"""
    from collections import defaultdict

    def fn(g):
        shims.CURRENT["g"] = g if g.symbolic else None
        c = lrc.create_transcript_counter(fresh_prefix("fwd"), "with_ambiguous")
        models = ["M%d" % (i + 1) for i in range(n_models)]
        mc = gbmc.GraphBasedModelConstructor.__new__(gbmc.GraphBasedModelConstructor)
        mc.transcript_counter = c
        mc.transcript_read_ids = defaultdict(list)
        mc.internal_counter = defaultdict(int)
        mc.read_assignment_counts = defaultdict(int)
        for m in models:
            mc.transcript_read_ids[m], mc.internal_counter[m] = [], 0
        support = []
        for i in range(n_reads):
            s = g.choice("read%d_supports" % i, 1 << n_models)    # bit mask over the models
            rid = "r%d" % i
            support.append(s)
            mc.read_assignment_counts[rid] = 0
            for j, m in enumerate(models):
                if s >> j & 1:
                    call(g, mc.save_assigned_read, Obj(read_id=rid, read_group="NA"), m)
        dropped = g.choice("discarded_model", n_models + 1) if delete else n_models      # n_models: none
        if dropped < n_models:
            call(g, mc.delete_from_storage, models[dropped])
            support = [s & ~(1 << dropped) for s in support]
        alive = [m for j, m in enumerate(models) if j != dropped]
        mc.transcript_model_storage = [Obj(transcript_id=m) for m in alive]
        call(g, mc.forward_counts)
        det = {"support_masks": support, "discarded": models[dropped] if dropped < n_models else None}
        for j, m in enumerate(models):
            exp = sum(((1 / float_(bin(s).count("1"))) if (s >> j & 1) else 0) for s in support)
            g.check(c.feature_counter[m].get(0) == exp, "model count = sum of 1 or 1/k over its supporting reads", detail=det)
        g.check(c.not_assigned_reads == sum(1 for s in support if s == 0), "reads supporting no model are counted as __no_feature", detail=det)
        g.check(c.ambiguous_reads == sum(1 for s in support if bin(s).count("1") > 1), "reads shared by models are counted as __ambiguous", detail=det)
        g.check(set(alive) <= c.confirmed_features, "reported models are confirmed features")
    return fn


def h_merge_counts(n_chr, via):
    """merge_counts / DatasetProcessor.merge_assignments / merge_transcript_models: merged stats = sums,
    __not_aligned = number of unaligned reads of the sample"""
    def fn(g):
        shims.CURRENT["g"] = g if g.symbolic else None
        prefix = fresh_prefix("merge")
        label = os.path.basename(prefix)
        chr_ids = ["chr%d" % i for i in range(1, n_chr + 1)]
        c = lrc.create_transcript_counter(prefix + ".transcript", "unique_only")
        sums = {"__ambiguous": 0, "__no_feature": 0, "__not_aligned": 0, "__usable": 0}
        vals = {}
        for ch in chr_ids:
            cc = lrc.create_transcript_counter(os.path.join(os.path.dirname(prefix), "%s_%s.transcript" % (label, ch)), "unique_only")
            v = g.real("count_" + ch, 0)
            vals[ch] = v
            cc.feature_counter["F_" + ch].data = {0: v}
            cc.all_features = {"F_" + ch}
            cc.confirmed_features = {"F_" + ch}
            cc.ambiguous_reads, cc.not_assigned_reads, cc.not_aligned_reads, cc.reads_for_tpm = \
                g.int("amb_" + ch, 0), g.int("nofeat_" + ch, 0), 0, g.int("usable_" + ch, 0)
            for k_, v_ in zip(sums, (cc.ambiguous_reads, cc.not_assigned_reads, cc.not_aligned_reads, cc.reads_for_tpm)):
                sums[k_] = sums[k_] + v_
            cc.dump()
        U = g.int("unaligned_reads_of_sample", 0)
        if via == "merge_counts":
            call(g, file_utils.merge_counts, c, label, chr_ids, U)
        else:
            this = Obj(alignment_stat_counter=Obj(stats_dict={AlignmentType.unaligned: U}), args=Obj(normalization_method="simple", genedb=None))
            agg = Obj(global_counter=Obj(counters=[c]), transcript_model_global_counter=Obj(counters=[c]),
                      corrected_bed_printer=Obj(output_file=open(prefix + ".bed.merged", "w")))
            if via == "merge_transcript_models":
                d = os.path.dirname(prefix)
                for ch in chr_ids:
                    open(os.path.join(d, "%s_%s.models.gtf" % (label, ch)), "w").close()
                    open(os.path.join(d, "%s_%s.reads.tsv" % (label, ch)), "w").close()
                pr = Obj(model_fname=prefix + ".models.gtf", r2t_fname=prefix + ".reads.tsv",
                         out_gff=open(prefix + ".models.gtf", "w"), out_r2t=open(prefix + ".reads.tsv", "w"))
                call(g, dp.DatasetProcessor.merge_transcript_models, this, label, agg, chr_ids, pr)
                pr.out_gff.close()
                pr.out_r2t.close()
            else:
                d = os.path.dirname(prefix)
                for ch in chr_ids:
                    open(os.path.join(d, "%s_%s.corrected_reads.bed" % (label, ch)), "w").close()
                smp = Obj(prefix=label, out_corrected_bed=prefix + ".corrected_reads.bed", out_assigned_tsv=prefix + ".read_assignments.tsv")
                call(g, dp.DatasetProcessor.merge_assignments, this, smp, agg, chr_ids)
            agg.corrected_bed_printer.output_file.close()
        rows, stats = parse_counts(g, c.output_counts_file_name)
        for ch in chr_ids:
            g.check("F_" + ch in rows and rows["F_" + ch][0] == vals[ch], "per-chromosome rows are carried into the merged table unchanged")
        g.check(AND(stats.get("__ambiguous", -1) == sums["__ambiguous"], stats.get("__no_feature", -1) == sums["__no_feature"]),
                "merged __ambiguous/__no_feature = sums over chromosomes")
        g.check(stats.get("__not_aligned", -1) == U, "merged __not_aligned = number of unaligned reads of the sample",
                detail={"via": via})
        g.check(c.reads_for_tpm == sums["__usable"], "usable reads for TPM = sum over chromosomes")
    return fn


def merge_name_contract():
    """contract module for the CrossHair lane: the per-chromosome file name that the merge step looks
    for equals the name the per-chromosome worker writes (SampleData built with prefix <label>_<chr>)"""
    from src.input_data_storage import SampleData
    probe = SampleData([], "LBL", "/o", {}, None)
    suffixes = sorted({v[len("/o/LBL"):] for v in probe.__dict__.values() if isinstance(v, str) and v.startswith("/o/LBL")})
    suffixes += [x + y for x in (".transcript_models.gtf", ".transcript_model_reads.tsv", ".extended_annotation.gtf",
                                 ".gene_counts.tsv", ".transcript_counts.tsv.stats", ".transcript_model_counts_linear.tsv")
                 for y in ("", ".gz")]
    # one representative per distinct character set is enough for the substitution logic; keep the run short
    suffixes = sorted(set(suffixes), key=lambda x: (len(x), x))[:3] + [".transcript_models.gtf"]
    lines = [
        "import string",
        "from src.file_utils import merge_file_list",
        "SUFFIXES = %r" % (suffixes,),
        "OK = string.ascii_letters + string.digits + '_.-'",
        "",
        "",
        "def PRE(label, chrid):",
        "    return 1 <= len(label) <= 3 and 1 <= len(chrid) <= 2 and '/' not in label and '/' not in chrid",
        "",
        "",
        "def _merge_names(label: str, chrid: str) -> bool:",
        "    '''",
        "    pre: 1 <= len(label) <= 3 and 1 <= len(chrid) <= 2",
        "    pre: '/' not in label and '/' not in chrid",
        "    post: _ == True",
        "    '''",
        "    d = '/out/dir'",
        "    for suffix in SUFFIXES:",
        "        merged = d + '/' + label + suffix",
        "        expect = d + '/' + label + '_' + chrid + suffix",
        "        if merge_file_list(merged, label, [chrid]) != [expect]:",
        "            return False",
        "    return True",
        "",
    ]
    return "\n".join(lines)


def replay_custom(inst, case):
    from vlib import crosshair_lane
    return crosshair_lane.replay_contract("_merge_names", merge_name_contract(), case["model"]["__crosshair_args"])


def instances(tier, seed):
    q = tier == "quick"
    L = "src.long_read_counter:"
    F_ADD = [L + "AssignedFeatureCounter.add_read_info", L + "ReadWeightCounter.process_ambiguous", L + "ReadWeightCounter.process_inconsistent",
             L + "GeneAssignmentExtractor.get_features", L + "GeneAssignmentExtractor.confirms_feature",
             L + "TranscriptAssignmentExtractor.get_features", L + "TranscriptAssignmentExtractor.confirms_feature", L + "IncrementalDict.inc"]
    out = []
    for s in STRATEGIES:
        for gene_level in (False, True):
            for k in ((0, 1, 2) if q else (0, 1, 2, 3)):
                out.append(Instance("add_read[%s,%s,matches=%d]" % (s, "gene" if gene_level else "transcript", k),
                                    h_add_read(s, gene_level, k), F_ADD, "arbitrary counter state over 3 features, one read with %d matches" % k,
                                    weight=3 ** k, budget_s=900))
        out.append(Instance("dump[%s]" % s, h_dump(s), [L + "AssignedFeatureCounter.dump", L + "AssignedFeatureCounter.dump_ungrouped"],
                            "arbitrary state over 3 features", weight=5))
    for n in ((1, 2, 3) if q else (1, 2, 3, 4)):
        for usable in (False, True):
            out.append(Instance("tpm[%d,%s]" % (n, "usable_reads" if usable else "simple"), h_tpm(n, usable),
                                [L + "AssignedFeatureCounter.convert_counts_to_tpm"], "%d features with symbolic counts" % n, weight=n, budget_s=600))
    for k in (3,):
        out.append(Instance("add_raw", h_add_raw(k), [L + "AssignedFeatureCounter.add_read_info_raw", L + "AssignedFeatureCounter.add_unassigned"],
                            "arbitrary state, one read supporting any subset of 3 models, all strategies", weight=10))
    for n in ((1, 2) if q else (1, 2, 3)):
        out.append(Instance("forward_counts[%d]" % n, h_forward_counts(n), ["src.graph_based_model_construction:GraphBasedModelConstructor.forward_counts",
                                                                         L + "AssignedFeatureCounter.add_read_info_raw"],
                            "%d reads x 2 models, arbitrary support relation" % n, weight=4 ** n))
    for n, nm in (((2, 2), (2, 3)) if q else ((2, 2), (2, 3), (3, 3))):
        out.append(Instance("discard_then_forward[reads=%d,models=%d]" % (n, nm), h_forward_counts(n, nm, True),
                            ["src.graph_based_model_construction:GraphBasedModelConstructor.save_assigned_read",
                             "src.graph_based_model_construction:GraphBasedModelConstructor.delete_from_storage",
                             "src.graph_based_model_construction:GraphBasedModelConstructor.forward_counts", L + "AssignedFeatureCounter.add_read_info_raw"],
                            "%d reads x %d models, arbitrary support relation, one solver-chosen model discarded before counting" % (n, nm),
                            weight=(1 << nm) ** n))
    for n in ((1, 2) if q else (1, 2, 3)):
        for via in ("merge_counts", "merge_assignments", "merge_transcript_models"):
            out.append(Instance("merge[%s,chr=%d]" % (via, n), h_merge_counts(n, via),
                                ["src.file_utils:merge_counts", "src.file_utils:merge_files", "src.file_utils:merge_file_list",
                                 "src.dataset_processor:DatasetProcessor.merge_assignments", "src.dataset_processor:DatasetProcessor.merge_transcript_models"],
                                "%d chromosomes, symbolic per-chromosome counts and stats" % n, weight=5 * n))
    from vlib import crosshair_lane
    out.append(Instance("merge_names[crosshair]", run=crosshair_lane.lane_run("_merge_names", merge_name_contract(), 120 if q else 600),
                        funcs=["src.file_utils:merge_file_list", "src.common:rreplace"], kind="crosshair",
                        bounds="CrossHair: label <= 3 chars, chromosome id <= 2 chars (any characters but '/'), every output suffix of SampleData/GFFPrinter; "
                        "bug-hunting strength unless 'Confirmed over all paths'", weight=1000))
    return out
