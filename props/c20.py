"""C20 - concurrent runs under one user account do not interfere (shared $HOME/.config/IsoQuant/*.json)."""
import json
import os
import shutil
import tempfile
import threading
import time

import z3

import isoquant
import src.gtf2db as gtf2db

from vlib.runner import Instance

PROPERTY = "C20"
EXPLANATION = ("Engine C: the sequence of operations each run performs on the shared JSON cache file (exists / open-for-write = truncate / "
               "dump+close / open-for-read / load) is RECORDED by executing the real set_configs_directory and convert_db against a "
               "recording file layer (regenerated from the current source on every run); z3 then searches ALL interleavings of N "
               "simultaneously starting runs (schedule = array of symbolic process ids) for one in which a load observes a truncated file "
               "or a run fails; a schedule found is replayed with real threads on a real scratch HOME, the real functions being stepped "
               "in exactly that order.")
STUBS = ["the GTF->database converter is a stub that creates the database file", "process = thread stepped by a scheduler at every shared-file operation"]
ASSUMPTIONS = ["each file operation (open, dump+close, load) is atomic; open(path,'w') truncates at once (POSIX semantics)",
               "runs start simultaneously with the same or different annotation files"]
OUTSIDE = ["more than 4 modelled processes", "real OS scheduling inside a single write", "index / BED / alignment caches of read_mapper (same read-modify-write pattern, not recorded)"]


class Recorder:
    """file layer for one run: records operations on the shared config path and delegates to real files; under a gate
    every operation on the shared file is performed while holding the turn (so operations are atomic and ordered)"""
    def __init__(self, cfg, gate=None, pid=0):
        self.cfg, self.events, self.gate, self.pid = cfg, [], gate, pid

    def _do(self, kind, shared, fn):
        if not shared:
            return fn()
        self.events.append(kind)
        if self.gate:
            self.gate.wait_turn(self.pid, kind)
        try:
            return fn()
        finally:
            if self.gate:
                self.gate.release()

    def exists(self, p):
        return self._do("exists", p == self.cfg, lambda: os.path.exists(p))

    def open(self, p, mode="r"):
        return self._do("wopen" if "w" in mode else "ropen", p == self.cfg, lambda: open(p, mode))

    def load(self, f):
        return self._do("load", f.name == self.cfg, lambda: json.load(f))

    def dump(self, obj, f):
        def w():
            json.dump(obj, f)
            f.flush()
        return self._do("dump", f.name == self.cfg, w)

    def replace(self, src, dst):
        # atomic publication of a complete file
        return self._do("publish", dst == self.cfg, lambda: os.replace(src, dst))


class OsProxy:
    def __init__(self, rec):
        self._rec = rec
        self.path = self
        self.environ = os.environ

    def exists(self, p):
        return self._rec.exists(p)

    def replace(self, src, dst):
        return self._rec.replace(src, dst)

    def __getattr__(self, n):
        # the proxy stands for both `os` and `os.path`: names that only os.path has go there
        return getattr(os, n) if hasattr(os, n) else getattr(os.path, n)


class JsonProxy:
    def __init__(self, rec):
        self._rec = rec

    def load(self, f):
        return self._rec.load(f)

    def dump(self, obj, f):
        return self._rec.dump(obj, f)


def one_run(home, gtf_name, rec, errors):
    """what one IsoQuant start does with the shared annotation cache: set_configs_directory + convert_db"""
    saved = (isoquant.os, isoquant.json, isoquant.__dict__.get("open"), gtf2db.os, gtf2db.json, gtf2db.__dict__.get("open"))
    try:
        args = type("A", (), {})()
        args.clean_start, args.complete_genedb, args.gtf_check = False, True, False
        gtf = os.path.join(home, gtf_name)
        db = os.path.join(home, gtf_name + ".db")

        converter = gtf2db.gtf2db      # the stub installed by install_proxies (same identity test as in convert_db)
        # the module globals are shared by all threads of the replay; every thread installs proxies bound to a
        # thread-local recorder, so look the recorder up through the thread
        call_with(rec, lambda: isoquant.set_configs_directory(args), home)
        call_with(rec, lambda: gtf2db.convert_db(gtf, db, converter, args), home)
    except Exception as e:  # noqa
        errors.append("%s: %s" % (type(e).__name__, str(e)[:80]))
    finally:
        pass


_tls = threading.local()


class TLRecorder:
    """module-level proxy that forwards to the recorder of the calling thread"""
    def exists(self, p): return _tls.rec.exists(p)
    def open(self, p, mode="r"): return _tls.rec.open(p, mode)
    def load(self, f): return _tls.rec.load(f)
    def dump(self, obj, f): return _tls.rec.dump(obj, f)
    def replace(self, src, dst): return _tls.rec.replace(src, dst)


def call_with(rec, fn, home):
    _tls.rec = rec
    fn()


def _stub_converter(gtf, db, complete=False, check=True):
    open(db, "w").close()


def install_proxies():
    tl = TLRecorder()
    saved = {}
    saved["converter"] = gtf2db.gtf2db
    gtf2db.gtf2db = _stub_converter
    for mod in (isoquant, gtf2db):
        saved[mod] = (mod.__dict__.get("os"), mod.__dict__.get("json"), mod.__dict__.get("open"))
        mod.os = OsProxy(tl)
        mod.json = JsonProxy(tl)
        mod.open = tl.open
    return saved


def remove_proxies(saved):
    gtf2db.gtf2db = saved.pop("converter")
    for mod, (o, j, op) in saved.items():
        mod.os, mod.json = o, j
        if op is None:
            mod.__dict__.pop("open", None)
        else:
            mod.open = op


def record_trace(config_exists, dir_only=False):
    """run once, alone, and record the operation sequence on db_config.json"""
    home = tempfile.mkdtemp(prefix="verif_c20_")
    old_home = os.environ.get("HOME")
    os.environ["HOME"] = home
    saved = install_proxies()
    try:
        cfg = os.path.join(home, ".config", "IsoQuant", "db_config.json")
        if config_exists:
            os.makedirs(os.path.dirname(cfg))
            json.dump({}, open(cfg, "w"))
        elif dir_only:
            os.makedirs(os.path.dirname(cfg))       # another run has just created the directory, nothing else yet
        open(os.path.join(home, "a.gtf"), "w").close()
        rec = Recorder(cfg)
        errors = []
        one_run(home, "a.gtf", rec, errors)
        return rec.events, errors
    finally:
        remove_proxies(saved)
        if old_home is None:
            os.environ.pop("HOME", None)
        else:
            os.environ["HOME"] = old_home
        shutil.rmtree(home, ignore_errors=True)


def find_bad_schedule(traces, exists0, timeout_ms=60000):
    """z3: is there an interleaving in which a load sees a truncated file?  Each process runs its recorded trace; the
    initialisation branch is modelled: 'exists' answering True skips the following wopen/dump pair."""
    n = len(traces)
    T = sum(len(t) for t in traces)
    s = z3.Solver()
    s.set("timeout", timeout_ms)
    sched = [z3.Int("sched_%d" % t) for t in range(T)]
    for v in sched:
        s.add(v >= 0, v < n)
    # state: 0 absent, 1 truncated/partial, 2 complete
    state = [z3.Int("state_%d" % t) for t in range(T + 1)]
    s.add(state[0] == (2 if exists0 else 0))
    pc = [[z3.Int("pc_%d_%d" % (p, t)) for t in range(T + 1)] for p in range(n)]
    for p in range(n):
        s.add(pc[p][0] == 0)
    bad = []
    for t in range(T):
        nxt_state = state[t]
        for p in range(n):
            active = z3.And(sched[t] == p, pc[p][t] < len(traces[p]))
            step = pc[p][t] + 1
            for k, kind in enumerate(traces[p]):
                here = z3.And(active, pc[p][t] == k)
                if kind == "exists" and traces[p][k + 1:k + 3] == ["wopen", "dump"]:
                    step = z3.If(z3.And(pc[p][t] == k, state[t] != 0), k + 3, step)
                if kind == "exists" and traces[p][k + 1:k + 2] == ["publish"]:
                    step = z3.If(z3.And(pc[p][t] == k, state[t] != 0), k + 2, step)
                if kind == "wopen":
                    nxt_state = z3.If(here, 1, nxt_state)
                elif kind in ("dump", "publish"):
                    nxt_state = z3.If(here, 2, nxt_state)
                if kind == "load":
                    bad.append(z3.And(here, state[t] != 2))
                if kind == "ropen":
                    bad.append(z3.And(here, state[t] == 0))
            s.add(pc[p][t + 1] == z3.If(active, step, pc[p][t]))
        s.add(state[t + 1] == nxt_state)
    s.add(z3.Or(*bad))
    t0 = time.time()
    r = s.check()
    dt = time.time() - t0
    if r == z3.sat:
        m = s.model()
        return "sat", [m.eval(v, model_completion=True).as_long() for v in sched], dt
    return str(r), None, dt


class Gate:
    """steps real threads in the order given by a schedule: one shared-file operation per turn, the turn is held until
    the operation has completed"""
    def __init__(self, schedule):
        self.schedule = list(schedule)
        self.pos = 0
        self.busy = False
        self.cv = threading.Condition()
        self.done = set()

    def wait_turn(self, pid, kind):
        with self.cv:
            while True:
                while self.pos < len(self.schedule) and self.schedule[self.pos] in self.done:
                    self.pos += 1
                if not self.busy and (self.pos >= len(self.schedule) or self.schedule[self.pos] == pid):
                    break
                self.cv.wait(timeout=2)
            self.busy = True
            self.pos += 1

    def wait_start(self, pid):
        """a run begins (its start-up code included) when the schedule first reaches it"""
        with self.cv:
            while True:
                while self.pos < len(self.schedule) and self.schedule[self.pos] in self.done:
                    self.pos += 1
                if not self.busy and (self.pos >= len(self.schedule) or self.schedule[self.pos] == pid):
                    return
                self.cv.wait(timeout=2)

    def release(self):
        with self.cv:
            self.busy = False
            self.cv.notify_all()

    def finish(self, pid):
        with self.cv:
            self.done.add(pid)
            self.cv.notify_all()


def replay_schedule(schedule, n, config_exists, same_gtf):
    """real threads, real files, the real functions, stepped in the given order; returns the list of run failures"""
    home = tempfile.mkdtemp(prefix="verif_c20r_")
    old_home = os.environ.get("HOME")
    os.environ["HOME"] = home
    saved = install_proxies()
    try:
        cfg = os.path.join(home, ".config", "IsoQuant", "db_config.json")
        if config_exists:
            os.makedirs(os.path.dirname(cfg))
            json.dump({}, open(cfg, "w"))
        gate = Gate(schedule)
        errors = [[] for _ in range(n)]
        threads = []
        for p in range(n):
            name = "a.gtf" if same_gtf else "g%d.gtf" % p
            open(os.path.join(home, name), "w").close()

            def body(p=p, name=name):
                try:
                    gate.wait_start(p)
                    one_run(home, name, Recorder(cfg, gate, p), errors[p])
                finally:
                    gate.finish(p)
            th = threading.Thread(target=body)
            threads.append(th)
        for th in threads:
            th.start()
        for th in threads:
            th.join(timeout=30)
        return [e for es in errors for e in es]
    finally:
        remove_proxies(saved)
        if old_home is None:
            os.environ.pop("HOME", None)
        else:
            os.environ["HOME"] = old_home
        shutil.rmtree(home, ignore_errors=True)


def lane(n, config_exists, same_gtf):
    def run(ctx):
        trace, errs = record_trace(True)
        if not config_exists:
            trace0, errs0 = record_trace(False)
            errs = errs + errs0
            assert trace0[0] == "exists" and trace0[-len(trace) + 1:] == trace[1:], (trace0, trace)
            trace = trace0
        st = {"paths": 1, "paths_reached_assertion": 1, "paths_infeasible": 0, "queries": 1, "obligations": 1, "discharged": 0, "inconclusive": [],
              "n_inconclusive": 0, "labels": {"no load observes a truncated cache file": 1}, "excluded": {}, "known_hits": {},
              "samples": [{"label": "recorded trace of one run", "witness": {"trace": trace, "solo_errors": errs}}]}
        if not errs and not config_exists:
            # a run that starts right after another run created the cache directory (but none of its files yet)
            _, errs_dir = record_trace(False, dir_only=True)
            st["obligations"] += 1
            st["labels"]["a run starting next to a half-initialised cache directory succeeds"] = 1
            if errs_dir:
                st["cex"] = {"label": "a run that finds the cache directory but not yet its files fails",
                             "model": {"dir_only": True}, "detail": {"errors": errs_dir}}
                return st
            st["discharged"] += 1
        if errs:
            st["error"] = "a single run fails on its own: %s" % errs
            return st
        verdict, sched, dt = find_bad_schedule([trace] * n, config_exists)
        st["solver_s"] = round(dt, 3)
        st["states"] = 3
        st["schedule_length"] = n * len(trace)
        if verdict == "unsat":
            st["discharged"] += 1
            # model validation: the non-overlapping and a round-robin schedule are replayed with real threads and files
            # ... and one in which run 0 is stopped right before its last operation (its private temporary copy exists) while the
            # other runs start, work and finish
            held = [0] * (len(trace) - 1) + [p for p in range(1, n) for _ in range(len(trace))] + [0]
            for sched in ([p for p in range(n) for _ in range(len(trace))], [p for _ in range(len(trace)) for p in range(n)], held):
                st["obligations"] += 1
                errs2 = replay_schedule(sched, n, config_exists, same_gtf)
                if errs2:
                    st["cex"] = {"label": "a run fails under a schedule the model calls safe",
                                 "model": {"schedule": sched, "n": n, "config_exists": config_exists, "same_gtf": same_gtf, "trace": trace}, "detail": {"errors": errs2}}
                    break
                st["discharged"] += 1
        elif verdict == "sat":
            known = "C20-config-json-rewritten-in-place"
            if known in ctx["active"]:
                # the listed finding is exactly this class of schedules; what remains to be shown is that nothing else goes
                # wrong: the serial schedule (no overlap of read-modify-write cycles) is replayed for real
                st["excluded"] = {known: 1}
                st["known_hits"] = {known: {"schedule": sched}}
                serial = [p for p in range(n) for _ in range(len(trace))]
                errs2 = replay_schedule(serial, n, config_exists, same_gtf)
                st["obligations"] = 2
                st["labels"]["runs whose cache accesses do not overlap all succeed"] = 1
                if errs2:
                    st["cex"] = {"label": "a run fails although the cache accesses do not overlap",
                                 "model": {"schedule": serial, "n": n, "config_exists": config_exists, "same_gtf": same_gtf, "trace": trace}, "detail": {"errors": errs2}}
                else:
                    st["discharged"] = 1
            else:
                st["cex"] = {"label": "a run loads the shared cache file while another run has truncated it",
                             "model": {"schedule": sched, "n": n, "config_exists": config_exists, "same_gtf": same_gtf, "trace": trace}, "detail": None}
        else:
            st["inconclusive"] = ["z3 returned %s" % verdict]
            st["n_inconclusive"] = 1
        return st
    return run


def replay_custom(inst, case):
    m = case["model"]
    if m.get("dir_only"):
        _, errs = record_trace(False, dir_only=True)
        return (len(errs) > 0), ("run failures: %s" % errs if errs else "the run finished")
    errs = replay_schedule(m["schedule"], m["n"], m["config_exists"], m["same_gtf"])
    bad = [e for e in errs if "JSONDecodeError" in e or "Error" in e]
    return (len(bad) > 0), ("run failures under the schedule: %s" % bad if bad else "all runs finished")


def instances(tier, seed):
    q = tier == "quick"
    out = []
    for n in ((2, 3) if q else (2, 3, 4)):
        for cfg in (False, True):
            out.append(Instance("interleavings[runs=%d,config %s]" % (n, "present" if cfg else "absent"), run=lane(n, cfg, False), kind="z3-bmc",
                                funcs=["isoquant:set_configs_directory", "src.gtf2db:convert_db", "src.gtf2db:find_converted_db"],
                                bounds="%d simultaneously starting runs, all interleavings of their recorded shared-file operations" % n, weight=10 * n))
    # "never makes a run use a conversion that does not correspond to its own input": the look-up decision (shared with C12)
    from props import c12
    out.append(Instance("cache_lookup", c12.h_cache, ["src.gtf2db:find_converted_db", "src.gtf2db:compare_stored_gtf"],
                        "symbolic existence bits, current and recorded modification times, flags", weight=20))
    out.append(Instance("cache_update", c12.h_convert, ["src.gtf2db:convert_db"], "conversion -> reuse -> touched input -> other flag", weight=20))
    return out
