"""C10 - experiments processed in one invocation are independent of each other."""
import ast
import glob
import os
import shutil
import tempfile

import src.dataset_processor as dp
import src.graph_based_model_construction as gbmc
import src.multimap_resolver as mr
import src.isoform_assignment as ia
import src.gene_info as gene_info_mod
import src.serialization as ser

from props import flblock
from props.flblock import Obj
from vlib import shims
from vlib.runner import Instance, REPO
from vlib.spec import AND, OR, NOT, ITE, IMPLIES, IFF, SUM, call

PROPERTY = "C10"
EXPLANATION = ("Non-interference by one inductive step: every class-level mutable attribute of src/ (found by an AST scan that is "
               "re-run on the current source) is set to ARBITRARY prior contents chosen by the solver - as left behind by an earlier "
               "experiment processed in the same interpreter - and the real per-chromosome entry point (construct_models_in_parallel, "
               "driven with fakes for I/O) and the real model-construction block must behave as from a clean start; z3 / the case "
               "split decides equality of the emitted models, resolution verdicts and counts for every prior state.")
STUBS = ["construct_models_in_parallel runs with Fasta / ReadAssignmentAggregator / ReadAssignmentLoader replaced by minimal fakes and real scratch files",
         "constructor state for construct_fl_isoforms built directly (see C18/C04)"]
ASSUMPTIONS = ["prior contents of detected_known_isoforms: any subset of {the reference isoform of this locus, an unrelated id}",
               "prior counter values (ids): symbolic non-negative integers"]
OUTSIDE = ["combined_* tables (pandas merge - C boundary)", "YAML / list-file parsing", "process pools (threads > 1 start fresh worker processes per sample)"]

_tmp = {"dir": None}


def setup_symbolic():
    from props import handoff
    handoff.setup_symbolic()
    shims.install([mr], ["min", "max"])


def scratch():
    if _tmp["dir"] is None or not os.path.isdir(_tmp["dir"]):
        _tmp["dir"] = tempfile.mkdtemp(prefix="verif_c10_")
        import atexit
        atexit.register(shutil.rmtree, _tmp["dir"], True)
    return _tmp["dir"]


def class_level_state():
    """AST scan of /repo/src: class attributes initialised with a mutable value or a counter object"""
    found = []
    for path in sorted(glob.glob(os.path.join(REPO, "src", "*.py"))):
        try:
            tree = ast.parse(open(path).read())
        except SyntaxError:
            continue
        for node in ast.walk(tree):
            if isinstance(node, ast.ClassDef):
                for st in node.body:
                    if isinstance(st, ast.Assign) and len(st.targets) == 1 and isinstance(st.targets[0], ast.Name):
                        v = st.value
                        mutable = isinstance(v, (ast.Dict, ast.List, ast.Set)) or \
                            (isinstance(v, ast.Call) and isinstance(v.func, ast.Name) and
                             (v.func.id in ("set", "dict", "list", "defaultdict") or v.func.id.endswith("Distributor")))
                        counter = isinstance(v, ast.Constant) and isinstance(v.value, int) and not isinstance(v.value, bool) and \
                            any(isinstance(n, ast.AugAssign) and isinstance(n.target, ast.Attribute) and n.target.attr == st.targets[0].id
                                for n in ast.walk(tree))
                        if mutable or counter:
                            found.append("%s:%s.%s" % (os.path.basename(path), node.name, st.targets[0].id))
    return found


MODELLED = {"graph_based_model_construction.py:GraphBasedModelConstructor.detected_known_isoforms",
            "graph_based_model_construction.py:GraphBasedModelConstructor.extended_transcript_ids",
            "multimap_resolver.py:MultimapResolver.duplicate_counter",
            "isoform_assignment.py:ReadAssignment.assignment_id_generator",
            "gene_info.py:FeatureInfo.feature_id_counter"}


def h_scan(g):
    found = class_level_state()
    extra = [f for f in found if f not in MODELLED]
    g.check(len(found) >= 3, "the scan finds the class-level state of src/", detail={"found": found})
    # informational: attributes without a harness are listed in the evidence (no alarm - they may be constants)
    g.check(True, "class-level attributes without a non-interference harness: %s" % (", ".join(extra) or "none"))


class NoOp:
    """collaborator stand-in that accepts any method call (so that an added flush()/close() in the code is not an alarm)"""
    def __init__(self, **kw):
        self.__dict__.update(kw)

    def __getattr__(self, name):
        return lambda *a, **k: None


class FakeLoader:
    def __init__(self, *a, **k):
        pass

    def has_next(self):
        return False


def h_entry_point(g):
    """construct_models_in_parallel starts every chromosome run from a clean 'already reported' set"""
    prior = [set(), {"REF1"}, {"REF1", "OTHER"}, {"OTHER"}][g.choice("prior_detected_known_isoforms", 4)]
    d = os.path.join(scratch(), "entry")
    shutil.rmtree(d, ignore_errors=True)
    os.makedirs(d)
    dump = os.path.join(d, "smp.save")
    with open(dump + "_multimappers_chr1", "wb") as fh:
        ser.write_int(ser.TERMINATION_INT, fh)
    agg = NoOp(read_stat_counter=dp.EnumStats(), global_counter=NoOp(), transcript_model_global_counter=NoOp(), global_printer=NoOp())
    saved = (dp.Fasta, dp.ReadAssignmentAggregator, dp.ReadAssignmentLoader)
    dp.Fasta = lambda *a, **k: {"chr1": "ACGT" * 50}
    dp.ReadAssignmentAggregator = lambda *a, **k: agg
    dp.ReadAssignmentLoader = FakeLoader
    old = flblock.get_reported()
    flblock.set_reported(set(prior))
    try:
        args = Obj(no_model_construction=False, reference="ref.fa", fai_file_name=None, resume=False, genedb=None, check_canonical=False,
                   sqanti_output=False)
        sample = Obj(out_dir=d, prefix="smp", out_t2t_tsv=os.path.join(d, "t2t.tsv"))
        call(g, dp.construct_models_in_parallel, sample, "chr1", dump, args, ["NA"])
        state = flblock.get_reported()
        state = set() if state is flblock._MISSING else set(state)          # a class without such state has nothing to carry over
    finally:
        dp.Fasta, dp.ReadAssignmentAggregator, dp.ReadAssignmentLoader = saved
        flblock.set_reported(old)
    g.check(state == set(), "a chromosome run starts with an empty set of already reported known isoforms, whatever ran before",
            detail={"prior": sorted(prior), "after_entry": sorted(state)})


class RecordingPrinter:
    """stands in for GFFPrinter: remembers the exon-id storage it is given and its state at that moment, then issues ids
    (as printing models would)"""
    seen = []

    def __init__(self, out_dir, prefix, exon_id_storage, *a, **k):
        RecordingPrinter.seen.append((exon_id_storage, len(exon_id_storage.id_dict), exon_id_storage.id_distributor.value))
        for i in range(3):
            exon_id_storage.get_id("chr1", (10 * i + 1, 10 * i + 5), "+")

    def __getattr__(self, name):
        return lambda *a, **k: None


def h_id_storage_fresh(g):
    """two consecutive chromosome runs in one process (two experiments, or two chromosomes of one worker): the exon-id
    table and its counter start fresh in the second one although the first one issued ids"""
    same_chr = bool(g.bool("second_run_same_chromosome_other_experiment"))
    d = os.path.join(scratch(), "ids")
    shutil.rmtree(d, ignore_errors=True)
    os.makedirs(d)
    saved = (dp.Fasta, dp.ReadAssignmentAggregator, dp.ReadAssignmentLoader, dp.GFFPrinter)
    dp.Fasta = lambda *a, **k: {"chr1": "ACGT" * 50, "chr2": "ACGT" * 50}
    dp.ReadAssignmentAggregator = lambda *a, **k: NoOp(read_stat_counter=dp.EnumStats(), global_counter=NoOp(), transcript_model_global_counter=NoOp(),
                                                       global_printer=NoOp())
    dp.ReadAssignmentLoader = FakeLoader
    dp.GFFPrinter = RecordingPrinter
    RecordingPrinter.seen = []
    old = flblock.get_reported()
    try:
        args = Obj(no_model_construction=False, reference="ref.fa", fai_file_name=None, resume=False, genedb=None, check_canonical=False,
                   sqanti_output=False)
        for i, chr_id in enumerate(["chr1", "chr1" if same_chr else "chr2"]):
            dump = os.path.join(d, "exp%d.save" % i)
            with open(dump + "_multimappers_" + chr_id, "wb") as fh:
                ser.write_int(ser.TERMINATION_INT, fh)
            sample = Obj(out_dir=d, prefix="exp%d" % i, out_t2t_tsv=os.path.join(d, "t2t%d.tsv" % i))
            call(g, dp.construct_models_in_parallel, sample, chr_id, dump, args, ["NA"])
    finally:
        dp.Fasta, dp.ReadAssignmentAggregator, dp.ReadAssignmentLoader, dp.GFFPrinter = saved
        flblock.set_reported(old)
    seen = RecordingPrinter.seen
    g.check(len(seen) == 2, "each chromosome run builds its transcript printer")
    if len(seen) == 2:
        g.check(seen[1][1] == 0 and seen[1][2] == 0,
                "the exon-id table and counter of a chromosome run start fresh, whatever the same process handled before",
                detail={"ids_already_known": seen[1][1], "counter": seen[1][2], "same_chromosome": same_chr})


def h_known_isoform_reported(g):
    """from the clean state the reference isoform reproduced by a full-length path is reported (count permitting),
    and processing the same locus twice inside one chromosome run reports it once"""
    introns = [(11, 30), (41, 60)]
    seq = flblock.make_sequence(introns, [("GT", "AG")] * 2, 100)
    count = g.int("path_read_count", 0, 20)
    gi = Obj(chr_id="chr1", gene_strands={"G": "+"}, empty=lambda: False, all_isoforms_introns={"REF1": introns}, isoform_strands={"REF1": "+"},
             gene_id_map={"REF1": "G"}, all_isoforms_exons={"REF1": [(1, 10), (31, 40), (61, 100)]}, other_features={"REF1": []}, sources={"REF1": "x", "G": "x"})
    old = flblock.get_reported()
    flblock.set_reported(set())
    try:
        out = []
        for rep in range(2):
            c = flblock.make_constructor(seq, flblock.default_params("auto"), gene_info=gi, known_introns=introns, reference_gene="G", matching="REF1")
            c.transcript_from_reference = lambda iso: Obj(transcript_id=iso, transcript_type=gbmc.TranscriptModelType.known)
            flblock.add_path(c, introns, 1, 100, count)
            call(g, c.construct_fl_isoforms)
            out.append([m.transcript_id for m in c.transcript_model_storage])
    finally:
        flblock.set_reported(old)
    g.check(IMPLIES(count >= 1, out[0] == ["REF1"]) if not isinstance(count >= 1, bool) or count >= 1 else True,
            "a known isoform with a supporting full-length path is reported")
    g.check(out[1] == [] or out[0] == [], "within one chromosome run a known isoform is reported once")


def h_duplicate_counter(n):
    """MultimapResolver.duplicate_counter only drives log messages: verdicts do not depend on its prior value"""
    from props import c08

    def fn(g):
        k = g.int("prior_duplicate_counter", 0)
        recs = [c08.mk_record(g, i, 1) for i in range(n)]
        a = [c08.copy_record(r) for r in recs]
        b = [c08.copy_record(r) for r in recs]
        old = mr.MultimapResolver.duplicate_counter
        try:
            mr.MultimapResolver.duplicate_counter = 0
            call(g, mr.MultimapResolver(mr.MultimapResolvingStrategy.take_best).resolve, a)
            mr.MultimapResolver.duplicate_counter = k
            call(g, mr.MultimapResolver(mr.MultimapResolvingStrategy.take_best).resolve, b)
        finally:
            mr.MultimapResolver.duplicate_counter = old
        for x, y in zip(a, b):
            g.check(AND(x.assignment_type == y.assignment_type, x.gene_assignment_type == y.gene_assignment_type, IFF(x.multimapper, y.multimapper)),
                    "resolution verdicts do not depend on the duplicate counter left by an earlier experiment")
    return fn


def h_id_counters(g):
    """identifiers handed out by class-level counters stay unique for every prior counter value"""
    k = g.int("prior_assignment_id", 0)
    old = ia.ReadAssignment.assignment_id_generator.value
    try:
        ia.ReadAssignment.assignment_id_generator.value = k
        r = [ia.ReadAssignment("r%d" % i, ia.ReadAssignmentType.noninformative) for i in range(3)]
    finally:
        ia.ReadAssignment.assignment_id_generator.value = old
    g.check(AND(r[0].assignment_id != r[1].assignment_id, r[1].assignment_id != r[2].assignment_id, r[0].assignment_id != r[2].assignment_id,
                r[0].assignment_id > k), "assignment ids are distinct and fresh for every prior counter value")
    k2 = g.int("prior_feature_id", 0)
    old2 = gene_info_mod.FeatureInfo.feature_id_counter.value
    try:
        gene_info_mod.FeatureInfo.feature_id_counter.value = k2
        f = [gene_info_mod.FeatureInfo("chr1", 1, 2, "+", "X", ["G"]) for _ in range(3)]
    finally:
        gene_info_mod.FeatureInfo.feature_id_counter.value = old2
    g.check(AND(f[0].id != f[1].id, f[1].id != f[2].id, f[0].id != f[2].id), "feature ids are distinct for every prior counter value")


def run_samples(g, samples, strategy, base_mi, base_me, read_group=None):
    """the real DatasetProcessor.process_sample for a sequence of experiments (one processor object, as isoquant.py uses
    it); collect_reads / load_read_info / process_assigned_reads are fakes that feed and record the per-sample state"""
    # the real constructor (no annotation, no reference to load) so that whatever it derives from the whole input is in place
    args = Obj(read_group=read_group, resume=False, read_assignments=None, keep_tmp=True, gunzipped_reference=None,
               polya_requirement_strategy=strategy, require_monointronic_polya=base_mi, require_monoexonic_polya=base_me,
               polya_percentage_threshold=0.7, low_polya_percentage_threshold=0.1, no_model_construction=False,
               _cmd_line="x", _version="v", genedb=None, needs_reference=False, check_canonical=False, cage=None,
               input_data=Obj(samples=list(samples), has_replicas=lambda: any(len(s_.file_list) > 1 for s_ in samples)))
    this = call(g, dp.DatasetProcessor, args)
    seen = []
    cur = {}

    def fake_collect(sample):
        this.alignment_stat_counter.add(dp.AlignmentType.unaligned, sample.unmapped)

    def fake_load(saves):
        return cur["s"].total, cur["s"].polya, {"NA"}

    def fake_process(sample, saves):
        seen.append((this.args.requires_polya_for_construction, this.args.require_monointronic_polya, this.args.require_monoexonic_polya,
                     this.alignment_stat_counter.stats_dict[dp.AlignmentType.unaligned],
                     bool(getattr(this.args, "use_technical_replicas", False)), bool(getattr(this.args, "no_model_construction", False))))
    this.collect_reads, this.load_read_info, this.process_assigned_reads = fake_collect, fake_load, fake_process
    saved = (dp.prepare_read_groups,)
    dp.prepare_read_groups = lambda a, s_: None
    try:
        for smp in samples:
            cur["s"] = smp
            call(g, this.process_sample, smp)
    finally:
        dp.prepare_read_groups = saved[0]
    return seen


def h_sample_independence(g):
    """what process_sample hands to the processing of experiment B does not depend on an experiment A processed before"""
    d = os.path.join(scratch(), "samples")
    os.makedirs(d, exist_ok=True)
    strategy = list(dp.PolyAUsageStrategies)[g.choice("polya_requirement", len(list(dp.PolyAUsageStrategies)))]
    base_mi, base_me = bool(g.bool("preset_require_monointronic_polya")), bool(g.bool("preset_require_monoexonic_polya"))

    def mk(name):
        t = g.int(name + "_total_assignments", 0, 1000)
        p = g.int(name + "_polya_assignments", 0, 1000)
        g.add(p <= t)
        files = [["%s_%d.bam" % (name, i)] for i in range(1 + g.choice(name + "_extra_files", 2))]
        return Obj(prefix=name, file_list=files, read_group_file=os.path.join(d, name + ".rg"), out_raw_file=os.path.join(d, name + ".save"),
                   total=t, polya=p, unmapped=g.int(name + "_unmapped_reads", 0, 1000))
    a, b = mk("A"), mk("B")
    read_group = [None, "file_name"][g.choice("read_group_option", 2)]
    both = run_samples(g, [a, b], strategy, base_mi, base_me, read_group)
    alone = run_samples(g, [b], strategy, base_mi, base_me, read_group)
    if len(both) < 2 or len(alone) < 1:
        g.check(len(both) == 2 and len(alone) == 1, "every experiment is processed", detail={"processed": [len(both), len(alone)]})
        return
    x, y = both[1], alone[0]
    g.check(x[4] == y[4], "the technical-replica filter of an experiment depends on its own files only",
            detail={"B_files": len(b.file_list), "A_files": len(a.file_list), "after_A": x[4], "alone": y[4]})
    g.check(x[5] == y[5], "model construction is switched on or off for an experiment by its own data only",
            detail={"after_A": x[5], "alone": y[5]})
    g.check(AND(IFF(x[0], y[0]), IFF(x[1], y[1]), IFF(x[2], y[2])),
            "polyA requirements applied to an experiment do not depend on the experiment processed before it",
            detail={"after_A": [str(v) for v in x[:3]], "alone": [str(v) for v in y[:3]]})
    g.check(x[3] == y[3], "the number of unaligned reads reported for an experiment does not include the previous experiment's")


def h_input_experiments(mode):
    """the experiment descriptions of a multi-experiment run (YAML or file list) through the real InputDataStorage: what
    experiment B is given (files, labels, short-read BAMs, name when it has one) equals what it is given when it is described alone;
    the shape of both experiments (named or not, 1-2 files, labels, short reads) is chosen by the solver"""
    import io as _io
    import src.input_data_storage as ids

    def describe(g, tag):
        return dict(named=bool(g.bool("%s_named" % tag)), n_files=1 + g.choice("%s_files" % tag, 2), labels=bool(g.bool("%s_labels" % tag)),
                    illumina=bool(g.bool("%s_short_reads" % tag)) if mode == "yaml" else False)

    def entry(tag, d):
        files = ["/data/%s_%d.bam" % (tag, i) for i in range(d["n_files"])]
        e = {"long read files": files}
        if d["named"]:
            e["name"] = "exp_" + tag
        if d["labels"]:
            e["labels"] = ["%s_lab%d" % (tag, i) for i in range(d["n_files"])]
        if d["illumina"]:
            e["illumina bam"] = ["/data/%s_short.bam" % tag]
        return e

    def listing(entries):
        lines = []
        for e in entries:
            lines.append("#" + e.get("name", ""))
            for i, f in enumerate(e["long read files"]):
                lines.append(f + (":" + e["labels"][i] if "labels" in e else ""))
        return "\n".join(lines) + "\n"

    def load(g, entries):
        saved = (ids.yaml, ids.__dict__.get("open"))
        ids.yaml = Obj(safe_load=lambda f: [{"data format": "bam"}] + [dict(e) for e in entries])
        ids.open = lambda path, mode_="r": _io.StringIO(listing(entries))
        try:
            args = Obj(fastq=None, bam=None, fastq_list=None, bam_list="/in/list.txt" if mode == "list" else None, read_assignments=None,
                       yaml="/in/data.yaml" if mode == "yaml" else None, labels=None, prefix="OUT", output="/out", illumina_bam=None)
            import contextlib
            with contextlib.redirect_stdout(_io.StringIO()):          # the YAML reader prints the input type
                return call(g, ids.InputDataStorage, args).samples
        finally:
            ids.yaml = saved[0]
            if saved[1] is None:
                ids.__dict__.pop("open", None)
            else:
                ids.open = saved[1]

    def fn(g):
        da, db = describe(g, "A"), describe(g, "B")
        ea, eb = entry("A", da), entry("B", db)
        both, alone = load(g, [ea, eb]), load(g, [eb])
        det = {"A": da, "B": db}
        g.check(len(both) == 2 and len(alone) == 1, "one sample per described experiment", detail=det)
        if len(both) != 2 or len(alone) != 1:
            return
        b2, b1 = both[1], alone[0]
        g.check(b2.file_list == b1.file_list, "an experiment gets its own read files only", detail=dict(det, together=str(b2.file_list), alone=str(b1.file_list)))
        g.check(dict(b2.readable_names_dict) == dict(b1.readable_names_dict), "file labels of an experiment do not depend on the other experiments",
                detail=dict(det, together=str(dict(b2.readable_names_dict)), alone=str(dict(b1.readable_names_dict))))
        g.check(b2.illumina_bam == b1.illumina_bam, "short-read BAMs of an experiment do not depend on the other experiments",
                detail=dict(det, together=str(b2.illumina_bam), alone=str(b1.illumina_bam)))
        if db["named"]:
            g.check(b2.prefix == b1.prefix == "exp_B" and b2.out_dir == b1.out_dir, "a named experiment keeps its name and output folder")
        g.check(both[0].prefix != both[1].prefix and both[0].out_dir != both[1].out_dir, "two experiments never share an output folder", detail=det)
    return fn


def h_experiment_names(mode):
    """three experiments whose names are chosen by the solver (absent, repeated, or looking like the automatic <prefix><index> names):
    every experiment gets its own output folder"""
    import io as _io
    import contextlib
    import src.input_data_storage as ids
    NAMES = [None, "S", "OUT1", "OUT2"]

    def fn(g):
        names = [NAMES[g.choice("experiment%d_name" % i, len(NAMES))] for i in range(3)]
        entries = []
        for i, nm in enumerate(names):
            e = {"long read files": ["/data/e%d.bam" % i]}
            if nm is not None:
                e["name"] = nm
            entries.append(e)
        listing = "".join("#%s\n%s\n" % (e.get("name", ""), e["long read files"][0]) for e in entries)
        saved = (ids.yaml, ids.__dict__.get("open"))
        ids.yaml = Obj(safe_load=lambda f: [{"data format": "bam"}] + [dict(e) for e in entries])
        ids.open = lambda path, mode_="r": _io.StringIO(listing)
        try:
            args = Obj(fastq=None, bam=None, fastq_list=None, bam_list="/in/list.txt" if mode == "list" else None, read_assignments=None,
                       yaml="/in/data.yaml" if mode == "yaml" else None, labels=None, prefix="OUT", output="/out", illumina_bam=None)
            import logging
            logging.disable(logging.CRITICAL)
            try:
                with contextlib.redirect_stdout(_io.StringIO()):
                    samples = call(g, ids.InputDataStorage, args).samples
            except SystemExit:
                return              # the description is rejected with an error message: no run, nothing shared
            finally:
                logging.disable(logging.NOTSET)
        finally:
            ids.yaml = saved[0]
            if saved[1] is None:
                ids.__dict__.pop("open", None)
            else:
                ids.open = saved[1]
        dirs = [s_.out_dir for s_ in samples]
        g.check(len(samples) == 3 and len(set(dirs)) == len(dirs), "every experiment of a run gets its own output folder",
                detail={"names_given": names, "folders": dirs})
    return fn


def h_combined_table(n_samples):
    """combine_table over n experiments: the per-experiment count files carry SENTINEL numbers (symbolic values rendered as unique
    numerals), pandas merges them as opaque numbers, and the combined table is parsed back: the column of every experiment holds
    that experiment's own value for every feature it reported, and nothing else"""
    import src.stats as stats
    feats = ["F1", "F2", "F3"]

    def fn(g):
        shims.CURRENT["g"] = g if g.symbolic else None
        d = os.path.join(scratch(), "combine%d" % n_samples)
        shutil.rmtree(d, ignore_errors=True)
        os.makedirs(d)
        samples, vals = [], []
        for i in range(n_samples):
            mask = g.choice("sample%d_features" % i, 8)
            v = {}
            path = os.path.join(d, "s%d_counts.tsv" % i)
            with open(path, "w") as fh:
                fh.write("#feature_id\tcount\n")
                for j, f in enumerate(feats):
                    if mask >> j & 1:
                        v[f] = g.real("sample%d_%s" % (i, f), 0)
                        fh.write("%s\t%.2f\n" % (f, v[f]))
                for stat in ("__ambiguous", "__no_feature", "__not_aligned"):
                    fh.write("%s\t%d\n" % (stat, 0))
            samples.append(Obj(prefix="exp%d" % i, path=path))
            vals.append(v)
        call(g, stats.combine_table, Obj(samples=samples), d, lambda smp: smp.path, "combined.tsv")
        lines = open(os.path.join(d, "combined.tsv")).read().splitlines()
        header = lines[0].split("\t")
        g.check(header == ["#feature_id"] + [smp.prefix for smp in samples], "one column per experiment, in order", detail={"header": header})
        rows = {l.split("\t")[0]: l.split("\t")[1:] for l in lines[1:]}
        g.check(sorted(rows) == sorted({f for v in vals for f in v}), "one row per feature reported by some experiment", detail={"rows": sorted(rows)})
        if header != ["#feature_id"] + [smp.prefix for smp in samples]:
            return
        for f, cells in rows.items():
            for i, cell in enumerate(cells):
                if f in vals[i]:
                    g.check(cell != "" and g.unsentinel_real(cell) == vals[i][f], "the column of an experiment holds that experiment's own count",
                            detail={"feature": f, "experiment": i, "cell": cell})
                else:
                    g.check(cell == "", "an experiment that did not report a feature has an empty cell", detail={"feature": f, "experiment": i, "cell": cell})
    return fn


def h_combine_counts(g):
    """the real combine_counts over two experiments: count tables (with their three summary rows) and TPM tables (without) are
    written with sentinel numerals; all four combined tables hold every feature row with each experiment's own value"""
    import src.stats as stats
    shims.CURRENT["g"] = g if g.symbolic else None
    d = os.path.join(scratch(), "combine_counts")
    shutil.rmtree(d, ignore_errors=True)
    os.makedirs(d)
    n_feats = 2 + g.choice("n_features", 3)
    feats = ["F%d" % i for i in range(n_feats)]
    samples, vals = [], {}
    for i in range(2):
        smp = Obj(prefix="exp%d" % i, out_gene_counts_tsv=os.path.join(d, "exp%d.gene" % i), out_transcript_counts_tsv=os.path.join(d, "exp%d.transcript" % i))
        for level, base in (("gene", smp.out_gene_counts_tsv), ("transcript", smp.out_transcript_counts_tsv)):
            for kind in ("counts", "tpm"):
                with open("%s_%s.tsv" % (base, kind), "w") as fh:
                    fh.write("#feature_id\t%s\n" % ("count" if kind == "counts" else "TPM"))
                    for f in feats:
                        v = g.real("exp%d_%s_%s_%s" % (i, level, kind, f), 0)
                        vals[(i, level, kind, f)] = v
                        fh.write("%s\t%.2f\n" % (f, v))
                    if kind == "counts":
                        for stat in ("__ambiguous", "__no_feature", "__not_aligned"):
                            fh.write("%s\t%d\n" % (stat, 0))
        samples.append(smp)
    call(g, stats.combine_counts, Obj(samples=samples), d)
    for level in ("gene", "transcript"):
        for kind in ("counts", "tpm"):
            lines = open(os.path.join(d, "combined_%s_%s.tsv" % (level, kind))).read().splitlines()
            rows = {l.split("\t")[0]: l.split("\t")[1:] for l in lines[1:]}
            g.check(sorted(rows) == sorted(feats), "the combined %s %s table has one row per feature of the experiments' tables" % (level, kind),
                    detail={"rows": sorted(rows), "features": feats})
            for f in feats:
                if f in rows:
                    g.check(AND([g.unsentinel_real(rows[f][i]) == vals[(i, level, kind, f)] for i in range(2)]),
                            "combined %s %s: the column of an experiment holds its own value" % (level, kind), detail={"feature": f})


def instances(tier, seed):
    q = tier == "quick"
    G = "src.graph_based_model_construction:GraphBasedModelConstructor."
    out = [Instance("class_state_scan", h_scan, [], "AST scan of src/*.py for class-level mutable state", weight=1),
           Instance("entry_point_resets_state", h_entry_point, ["src.dataset_processor:construct_models_in_parallel"],
                    "arbitrary prior contents of the 'already reported' set", weight=50),
           Instance("exon_id_storage_fresh", h_id_storage_fresh, ["src.dataset_processor:construct_models_in_parallel", "src.id_policy:FeatureIdStorage.__init__"],
                    "two consecutive chromosome runs (same chromosome of another experiment / another chromosome)", weight=30),
           Instance("known_isoform_reported", h_known_isoform_reported, [G + "construct_fl_isoforms"], "symbolic read count, same locus twice", weight=20),
           Instance("id_counters", h_id_counters, ["src.isoform_assignment:ReadAssignment.__init__", "src.gene_info:FeatureInfo.__init__",
                                                   "src.id_policy:SimpleIDDistributor.increment"], "symbolic prior counter values", weight=5)]
    out.append(Instance("sample_independence", h_sample_independence, ["src.dataset_processor:DatasetProcessor.process_sample",
                                                                     "src.dataset_processor:set_polya_requirement_strategy"],
                        "two experiments with symbolic assignment totals, polyA counts and unmapped reads; every --polya_requirement and preset flag",
                        weight=40, budget_s=900))
    out.append(Instance("combine_counts", h_combine_counts, ["src.stats:combine_counts", "src.stats:combine_table", "src.stats:transform_counts"],
                        "two experiments x 2-4 features, gene / transcript count and TPM tables with symbolic values", weight=20))
    for n in ((2, 3) if q else (2, 3, 4)):
        out.append(Instance("combined_table[experiments=%d]" % n, h_combined_table(n), ["src.stats:combine_table", "src.stats:transform_counts"],
                            "%d experiments x 3 features, any subset reported, symbolic counts (sentinel numerals through pandas)" % n, weight=8 ** n, budget_s=900))
    # read collection of one experiment (also an empty one) leaves the shared run options untouched (hand-off harness of C08/C09)
    from props import handoff
    for n_ in (0, 1):
        out.append(Instance("collect_reads_keeps_options[alignments=%d]" % n_, handoff.h_handoff(n_),
                            ["src.dataset_processor:DatasetProcessor.collect_reads"], "%d alignments, both memory modes" % n_, weight=10))
    for mode in ("yaml", "list"):
        out.append(Instance("experiment_names[%s]" % mode, h_experiment_names(mode),
                            ["src.input_data_storage:InputDataStorage.__init__", "src.input_data_storage:InputDataStorage.get_samples_from_" + ("yaml" if mode == "yaml" else "file")],
                            "three experiments, names absent / repeated / equal to an automatic name", weight=20))
    for mode in ("yaml", "list"):
        out.append(Instance("input_experiments[%s]" % mode, h_input_experiments(mode),
                            ["src.input_data_storage:InputDataStorage.__init__", "src.input_data_storage:InputDataStorage.get_samples_from_" + ("yaml" if mode == "yaml" else "file")],
                            "two experiments, every combination of named / 1-2 files / labels / short reads", weight=30))
    for n in ((2,) if q else (2, 3)):
        out.append(Instance("duplicate_counter[n=%d]" % n, h_duplicate_counter(n), ["src.multimap_resolver:MultimapResolver.find_duplicates",
                                                                                   "src.multimap_resolver:MultimapResolver.resolve"],
                            "%d records, symbolic prior counter" % n, weight=30 ** n, budget_s=1200))
    return out
