"""C19 - interval and profile primitives return exactly the set-theoretic result."""
from functools import partial

import src.common as common
import src.gene_info as gene_info
import src.long_read_profiles as lrp

from vlib import shims
from vlib.runner import Instance
from vlib.spec import (AND, OR, NOT, ITE, IMPLIES, IFF, SUM, BOOL2INT, in_iv, in_list, ilen, total_len,
                       inter_len, sorted_disjoint, interval_list, call, sym_min, sym_max, count_true, lex_lt)

PROPERTY = "C19"
EXPLANATION = ("Bounded symbolic verification of the interval/profile primitives: list lengths are concrete "
               "per instance, every coordinate (and delta, positions, indices) is an unbounded symbolic "
               "integer; the oracle is the set of positions (membership of an arbitrary symbolic point, "
               "cardinalities as sums of If-terms, ratios cross-multiplied in exact arithmetic).")
STUBS = ["src.common.float/min/max -> term-building shims (float modelled as exact rational)"]
ASSUMPTIONS = [
    "interval lists are sorted, a<=b, pairwise disjoint (the callers' invariant); adjacency not assumed",
    "float results compared in exact rational arithmetic (IEEE rounding of the returned ratio is outside the claim)",
    "truncate_read_to_polya: polyA/polyT positions lie strictly inside an exon (start < polya <= end, "
    "start <= polyt < end); the function has no caller in the pipeline",
    "profile constructors: known features are sorted by (start, end) and distinct as GeneInfo builds them",
    "profile constructors: every read/known feature is longer than 2*delta (two features that match within delta then share a position, and two disjoint read features cannot match the same known feature); micro-features shorter than that are outside the claim",
]
OUTSIDE = ["lists longer than the instance bound", "float rounding"]


def setup_symbolic():
    shims.install([common], ["float", "min", "max"])
    shims.install([lrp], ["min", "max"])
    shims.install([gene_info], ["min", "max"])


C = "src.common:"


# ------------------------------------------------------------------------------ pair predicates
def h_pairs(g):
    a = interval_list(g, "p", 1)[0]
    b = interval_list(g, "q", 1)[0]
    x = g.int("x")
    d = g.int("delta", 0)
    both = AND(in_iv(x, a), in_iv(x, b))
    # overlaps: True => witness point in both; False => no point in both
    r = call(g, common.overlaps, a, b)
    w = sym_max(a[0], b[0])
    g.check(ITE_bool(r, AND(in_iv(w, a), in_iv(w, b)), NOT(both)), "overlaps = sets intersect")
    lo, hi = call(g, common.overlap_intervals, a, b)
    g.check(IFF(both, AND(lo <= x, x <= hi)), "overlap_intervals = intersection")
    n = call(g, common.intersection_len, a, b)
    g.check(AND(n >= 0, IFF(both, AND(w <= x, x < w + n))), "intersection_len = |intersection|")
    r = call(g, common.left_of, a, b)
    g.check(IFF(r, a[1] < b[0]), "left_of")
    g.check(IMPLIES(r, NOT(both)), "left_of => disjoint")
    r = call(g, common.contains, a, b)
    g.check(ITE_bool(r, IMPLIES(in_iv(x, b), in_iv(x, a)), OR(NOT(in_iv(b[0], a)), NOT(in_iv(b[1], a)))),
            "contains = superset")
    r = call(g, common.covers_end, a, b)
    g.check(IFF(r, AND(in_iv(b[0], a), in_iv(a[1], b))), "covers_end")
    r = call(g, common.covers_start, a, b)
    g.check(IFF(r, AND(in_iv(a[0], b), in_iv(b[1], a))), "covers_start")
    r = call(g, common.equal_ranges, a, b, d)
    g.check(IFF(r, AND(a[0] - b[0] <= d, b[0] - a[0] <= d, a[1] - b[1] <= d, b[1] - a[1] <= d)), "equal_ranges")
    r = call(g, common.contains_well_inside, a, b, d)
    g.check(IFF(r, AND(a[0] <= b[0] - d, b[1] + d <= a[1])), "contains_well_inside")
    r = call(g, common.contains_approx, a, b, d)
    g.check(IFF(r, AND(a[0] - d <= b[0], b[1] <= a[1] + d)), "contains_approx")
    m = call(g, common.max_range, a, b)
    g.check(AND(IMPLIES(OR(in_iv(x, a), in_iv(x, b)), in_iv(x, m)),
                OR(m[0] == a[0], m[0] == b[0]), OR(m[1] == a[1], m[1] == b[1])), "max_range = hull")
    g.check(call(g, common.interval_len, a) == a[1] - a[0] + 1, "interval_len")
    # overlaps_at_least: sets intersect and (one contains the other or |intersection| >= delta)
    spec = AND(w <= sym_min(a[1], b[1]),
               OR(AND(a[0] <= b[0], b[1] <= a[1]), AND(b[0] <= a[0], a[1] <= b[1]),
                  sym_min(a[1], b[1]) - w + 1 >= d))
    r = call(g, common.overlaps_at_least, a, b, d)
    g.check(IFF(r, spec), "overlaps_at_least")
    r2 = call(g, common.overlaps_at_least_when_overlap, a, b, d)
    g.check(IMPLIES(w <= sym_min(a[1], b[1]), IFF(r2, spec)), "overlaps_at_least_when_overlap agrees under overlap")


def ITE_bool(c, a, b):
    return AND(IMPLIES(c, a), IMPLIES(NOT(c), b))


# ------------------------------------------------------------------------------ single list + point
def h_sums(n):
    def fn(g):
        l = interval_list(g, "e", n)
        pos = g.int("pos")
        r = call(g, common.intervals_total_length, l)
        g.check(r == total_len(l), "intervals_total_length")
        r = call(g, common.sum_intervals_to_point, l, pos)
        g.check(r == SUM([sym_max(0, sym_min(iv[1], pos - 1) - iv[0] + 1) for iv in l]),
                "sum_intervals_to_point = #positions < pos")
        r = call(g, common.sum_intervals_from_point, l, pos)
        g.check(r == SUM([sym_max(0, iv[1] - sym_max(iv[0], pos + 1) + 1) for iv in l]),
                "sum_intervals_from_point = #positions > pos")
    return fn


def h_binsearch(n, rev):
    def fn(g):
        l = interval_list(g, "e", n)
        pos = g.int("pos")
        f = common.interval_bin_search_rev if rev else common.interval_bin_search
        r = call(g, f, l, pos)
        if rev:
            # index of the first interval whose end is >= pos (pos inside the hull), else -1
            inside = AND(l[0][0] <= pos, pos <= l[-1][1])
            spec = [AND(inside, pos <= l[i][1], (l[i - 1][1] < pos) if i > 0 else True) for i in range(n)]
        else:
            inside = AND(l[0][0] <= pos, pos <= l[-1][1])
            spec = [AND(inside, l[i][0] <= pos, (pos < l[i + 1][0]) if i + 1 < n else True) for i in range(n)]
        g.check(AND([IFF(r == i, spec[i]) for i in range(n)] + [IFF(r == -1, NOT(inside))]),
                "interval_bin_search%s index spec" % ("_rev" if rev else ""))
    return fn


# ------------------------------------------------------------------------------ two lists
def h_two_lists(n1, n2):
    def fn(g):
        l1 = interval_list(g, "a", n1)
        l2 = interval_list(g, "b", n2)
        x = g.int("x")
        inter = inter_len(l1, l2)
        union = total_len(l1) + total_len(l2) - inter
        u = call(g, common.merge_ranges, l1, l2)
        g.check(sorted_disjoint(u), "merge_ranges result sorted & disjoint")
        g.check(IFF(in_list(x, u), OR(in_list(x, l1), in_list(x, l2))), "merge_ranges = union of positions")
        j = call(g, common.jaccard_similarity, l1, l2)
        g.check_ratio(j, inter, union, "jaccard = |A n B| / |A u B|")
        c = call(g, common.read_coverage_fraction, l1, l2)
        g.check_ratio(c, inter, total_len(l1), "read_coverage_fraction = |R n I| / |R|")
    return fn


def h_extra_exon(n):
    def fn(g):
        l = interval_list(g, "e", n)
        reg = interval_list(g, "r", 1)[0]
        r = call(g, common.extra_exon_percentage, reg, l)
        outside = total_len(l) - SUM([ilen(iv, reg) for iv in l])
        g.check_ratio(r, outside, total_len(l), "extra_exon_percentage = |R minus region| / |R|")
    return fn


# ------------------------------------------------------------------------------ blocks <-> junctions
def h_junctions(n):
    def fn(g):
        blocks = interval_list(g, "e", n)
        x = g.int("x")
        j = call(g, common.junctions_from_blocks, blocks)
        spec = OR([AND(blocks[i][1] < x, x < blocks[i + 1][0]) for i in range(n - 1)]) if n > 1 else False
        g.check(IFF(in_list(x, j), spec), "junctions_from_blocks = gaps between blocks")
        g.check(sorted_disjoint(j), "junctions sorted & disjoint")
        # with true introns (gap >= 1) the conversion is invertible
        if all_gaps(g, blocks):
            region = (blocks[0][0], blocks[-1][1])
            ex = call(g, common.get_exons, region, j)
            g.check(len(ex) == n and AND([AND(ex[i][0] == blocks[i][0], ex[i][1] == blocks[i][1]) for i in range(min(n, len(ex)))]),
                    "get_exons(junctions_from_blocks(b)) = b")
            if n > 1:
                for k in range(n):
                    e = call(g, common.get_exon, region, j, k)
                    g.check(AND(e[0] == blocks[k][0], e[1] == blocks[k][1]), "get_exon(k)")
                    e = call(g, common.get_exon, region, j, k - n)
                    g.check(AND(e[0] == blocks[k][0], e[1] == blocks[k][1]), "get_exon(negative index)")
                for k in range(n - 1):
                    e = call(g, common.get_following_exon_from_junctions, region, j, k)
                    g.check(AND(e[0] == blocks[k + 1][0], e[1] == blocks[k + 1][1]), "get_following_exon_from_junctions")
                    e = call(g, common.get_preceding_exon_from_junctions, region, j, k)
                    g.check(AND(e[0] == blocks[k][0], e[1] == blocks[k][1]), "get_preceding_exon_from_junctions")
                e = call(g, common.get_preceding_exon_from_junctions, region, j, n - 1)
                g.check(AND(e[0] == blocks[n - 1][0], e[1] == blocks[n - 1][1]), "get_preceding_exon_from_junctions(last)")
    return fn


def all_gaps(g, blocks):
    for i in range(len(blocks) - 1):
        if not (blocks[i][1] + 1 < blocks[i + 1][0]):
            return False
    return True


def h_get_exons_region(n):
    """get_exons on a free region and introns strictly inside it"""
    def fn(g):
        introns = interval_list(g, "i", n, gap=2)
        rs = g.int("rs")
        re_ = g.int("re")
        g.add(rs < introns[0][0])
        g.add(introns[-1][1] < re_)
        x = g.int("x")
        ex = call(g, common.get_exons, (rs, re_), introns)
        g.check(IFF(in_list(x, ex), AND(rs <= x, x <= re_, NOT(in_list(x, introns)))),
                "get_exons = region minus introns")
        g.check(len(ex) == n + 1, "get_exons count")
    return fn


def h_truncate(n):
    def fn(g):
        ex = interval_list(g, "e", n, gap=2)
        x = g.int("x")
        use_a = g.bool("use_polya")
        use_t = g.bool("use_polyt")
        pa = g.int("polya")
        pt = g.int("polyt")
        if use_a:
            g.assume(OR([AND(iv[0] < pa, pa <= iv[1]) for iv in ex]))
        else:
            g.add(pa == -1)
        if use_t:
            g.assume(OR([AND(iv[0] <= pt, pt < iv[1]) for iv in ex]))
        else:
            g.add(pt == -1)
        g.add(ex[0][0] >= 1)
        if use_a and use_t:
            g.assume(pt < pa)
        r = call(g, common.truncate_read_to_polya, ex, pa, pt)
        lo = ITE(pt == -1, ex[0][0], pt)
        hi = ITE(pa == -1, ex[-1][1], pa)
        g.check(IFF(in_list(x, r), AND(in_list(x, ex), lo <= x, x <= hi)), "truncate_read_to_polya = exons n [polyT, polyA]")
        g.check(sorted_disjoint(r), "truncate result sorted, non-empty blocks")
        g.check(len(r) >= 1, "truncate result non-empty")
    return fn


# ------------------------------------------------------------------------------ split_exons
def overlapping_sorted_list(g, stem, n):
    """n distinct intervals sorted by (start, end), free to overlap"""
    out = []
    for i in range(n):
        a = g.int("%s%da" % (stem, i))
        b = g.int("%s%db" % (stem, i))
        g.add(a <= b)
        g.add(a >= 1)
        if out:
            g.add(lex_lt(out[-1], (a, b)))
        out.append((a, b))
    return out


def h_split_exons(n):
    def fn(g):
        ex = overlapping_sorted_list(g, "e", n)
        x = g.int("x")
        blocks = call(g, gene_info.GeneInfo.split_exons, ex)
        g.check(sorted_disjoint(blocks), "split_exons blocks non-empty, sorted, disjoint")
        g.check(IFF(in_list(x, blocks), in_list(x, ex)), "split_exons covers exactly the exon positions")
        # every exon is a union of whole blocks
        g.check(AND([OR(AND(e[0] <= b[0], b[1] <= e[1]), b[1] < e[0], e[1] < b[0], b[0] > b[1]) for b in blocks for e in ex]),
                "split_exons: no block straddles an exon border")
    return fn


# ------------------------------------------------------------------------------ isoform profiles
def h_set_profiles(nf, k):
    """isoform profile: feature present iff the isoform contains it (exact comparison)"""
    def fn(g):
        feats = overlapping_sorted_list(g, "f", nf)
        # the isoform's own features: a sorted disjoint sub-list of the known features
        idx = []
        prev = -1
        for i in range(k):
            c = g.choice("pick%d" % i, nf)
            if c <= prev:
                g.assume(False)
            idx.append(c)
            prev = c
        mine = [feats[i] for i in idx]
        g.assume(sorted_disjoint(mine, gap=1))
        region = (mine[0][0], mine[-1][1])
        fp = gene_info.FeatureProfiles()
        fp.set_features(feats)
        call(g, fp.set_profiles, "T", mine, region, partial(common.equal_ranges, delta=0))
        prof = fp.profiles["T"]
        for i in range(nf):
            g.check(IFF(prof[i] == 1, i in idx), "isoform profile: 1 iff isoform contains the feature")
            ov = AND(feats[i][0] <= region[1], region[0] <= feats[i][1])
            g.check(IFF(prof[i] == -2, AND(NOT(ov), i not in idx)), "isoform profile: -2 iff feature outside the transcript region")
            g.check(OR(prof[i] == 1, prof[i] == -1, prof[i] == -2), "isoform profile values")
        rng = fp.profile_ranges["T"]
        g.check(AND(rng[0] == idx[0], rng[1] == idx[-1] + 1), "isoform profile range = first..last present feature")
    return fn


def h_split_profile(n, k):
    """split-exon profile of an isoform: block present iff contained in one of its exons"""
    def fn(g):
        blocks = interval_list(g, "b", n)
        mine = interval_list(g, "e", k, gap=2)
        # the isoform's exons are unions of blocks
        g.assume(AND([OR([bl[0] == e[0] for bl in blocks]) for e in mine]))
        g.assume(AND([OR([bl[1] == e[1] for bl in blocks]) for e in mine]))
        region = (mine[0][0], mine[-1][1])
        fp = gene_info.FeatureProfiles()
        fp.set_features(blocks)
        call(g, fp.set_profiles, "T", mine, region, common.contains)
        prof = fp.profiles["T"]
        for i in range(n):
            inside = OR([AND(e[0] <= blocks[i][0], blocks[i][1] <= e[1]) for e in mine])
            g.check(IFF(prof[i] == 1, inside), "split-exon isoform profile: 1 iff block inside an exon")
    return fn


# ------------------------------------------------------------------------------ read profiles
def matched(rf, kf, d):
    return AND(rf[0] - kf[0] <= d, kf[0] - rf[0] <= d, rf[1] - kf[1] <= d, kf[1] - rf[1] <= d)


def mdelta(rf, kf):
    return abs(rf[0] - kf[0]) + abs(rf[1] - kf[1])


def h_read_profile_overlapping(nr, nk, kind):
    """OverlappingFeaturesProfileConstructor.construct_profile_for_features with the exact wiring of
    CombinedProfileConstructor (kind = intron | exon)"""
    def fn(g):
        d = g.int("delta", 0, 12)
        known = overlapping_sorted_list(g, "k", nk)
        g.add(known[0][0] >= 100)
        # features are longer than 2*delta: two features matching within delta then share a position and
        # two disjoint read features cannot both match the same known feature
        for kf in known:
            g.add(kf[1] - kf[0] >= 2 * d)
        gene_region = (sym_min([k_[0] for k_ in known]) - g.int("gl", 0), sym_max([k_[1] for k_ in known]) + g.int("gr", 0))
        if kind == "intron":
            mio = g.int("min_absence_overlap", 1, 30)
            pc = lrp.OverlappingFeaturesProfileConstructor(
                known, gene_region, comparator=partial(common.equal_ranges, delta=d),
                absence_condition=partial(common.overlaps_at_least, delta=mio), delta=d)
            blocks = interval_list(g, "r", nr + 1, lo=1, gap=2)
            for i in range(nr):
                g.add(blocks[i + 1][0] - blocks[i][1] - 1 > 2 * d)
            res = call(g, pc.construct_intron_profile, blocks)
            rfeats = [(blocks[i][1] + 1, blocks[i + 1][0] - 1) for i in range(nr)]
            mapped = (blocks[0][0], blocks[-1][1])

            def absent(f):
                # the read's span overlaps f by at least mio (or one contains the other)
                w = sym_max(mapped[0], f[0])
                return AND(w <= sym_min(mapped[1], f[1]),
                           OR(AND(mapped[0] <= f[0], f[1] <= mapped[1]), AND(f[0] <= mapped[0], mapped[1] <= f[1]),
                              sym_min(mapped[1], f[1]) - w + 1 >= mio))
        else:
            pc = lrp.OverlappingFeaturesProfileConstructor(
                known, gene_region, comparator=partial(common.equal_ranges, delta=d), delta=d)
            blocks = interval_list(g, "r", nr, lo=1, gap=2)
            for b in blocks:
                g.add(b[1] - b[0] >= 2 * d)
            res = call(g, pc.construct_exon_profile, blocks)
            rfeats = blocks
            mapped = (blocks[0][1] + d, blocks[-1][0] - d)

            def absent(f):
                return AND(mapped[0] <= f[0], f[1] <= mapped[1])
        gp = res.gene_profile
        rp = res.read_profile
        ovl = lambda a, b: AND(a[0] <= b[1], b[0] <= a[1])  # noqa
        # known finding: the sweep drops a known feature as soon as an earlier read feature overlaps it,
        # so a later read feature that matches it within delta is never compared with it
        skipped = OR([AND(ovl(rfeats[r0], kf), NOT(matched(rfeats[r0], kf, d)), matched(rfeats[r1], kf, d))
                      for kf in known for r1 in range(len(rfeats)) for r0 in range(r1)] or [False])
        excl = g.excl({"C19-profile-sweep-skips-overlapped-feature": skipped})
        for i in range(nk):
            cands = [matched(rf, known[i], d) for rf in rfeats]
            any_match = OR(cands)
            # the only within-delta candidate of the read features that match it?
            others = [[matched(rf, known[j], d) for j in range(nk) if j != i] for rf in rfeats]
            sole = AND([IMPLIES(cands[r], NOT(OR(others[r]))) for r in range(len(rfeats))])
            g.check(IMPLIES(gp[i] == 1, any_match), "read profile: 1 only if a read feature matches within delta")
            g.check(IMPLIES(AND(any_match, sole), gp[i] == 1), "read profile: 1 if it is the sole within-delta match", exclude=excl)
            # closest-match rule for ambiguous candidates: some closest candidate keeps the 1
            closest = OR([AND(cands[r], AND([IMPLIES(matched(rfeats[r], known[j], d),
                                                     mdelta(rfeats[r], known[i]) <= mdelta(rfeats[r], known[j]))
                                             for j in range(nk)])) for r in range(len(rfeats))])
            g.check(IMPLIES(closest, gp[i] == 1), "read profile: a closest within-delta candidate is marked present", exclude=excl)
            g.check(IMPLIES(AND(NOT(any_match), absent(known[i])), gp[i] == -1),
                    "read profile: -1 if the read spans the feature without matching")
            g.check(IMPLIES(AND(gp[i] == -1, NOT(any_match)), spans_loosely(mapped, rfeats, known[i], d)),
                    "read profile: -1 only for features the read spans")
            g.check(OR(gp[i] == 1, gp[i] == -1, gp[i] == 0), "profile values without polyA")
        for r in range(len(rfeats)):
            g.check(IFF(rp[r] == 1, OR([matched(rfeats[r], kf, d) for kf in known])),
                    "read-side profile: 1 iff the read feature matches a known feature", exclude=excl)
    return fn


def spans_loosely(mapped, rfeats, f, d):
    """necessary condition for a -1: the feature is overlapped by the mapped region or lies between
    read features (positionally inside the read)"""
    return OR(AND(mapped[0] <= f[1], f[0] <= mapped[1]),
              AND(rfeats[0][0] <= f[1], f[0] <= rfeats[-1][1]) if rfeats else False)


def h_read_profile_split(nr, nk):
    """NonOverlappingFeaturesProfileConstructor.construct_profile (split exons)"""
    def fn(g):
        d = 0
        meo = g.int("minimal_exon_overlap", 1, 10)
        known = interval_list(g, "k", nk, lo=100)
        blocks = interval_list(g, "r", nr, lo=1, gap=2)
        pc = lrp.NonOverlappingFeaturesProfileConstructor(
            known, comparator=partial(common.overlaps_at_least_when_overlap, delta=meo), delta=d)
        res = call(g, pc.construct_profile, blocks)
        gp = res.gene_profile

        def hit(b, k):
            w = sym_max(b[0], k[0])
            e = sym_min(b[1], k[1])
            return AND(w <= e, OR(AND(b[0] <= k[0], k[1] <= b[1]), AND(k[0] <= b[0], b[1] <= k[1]), e - w + 1 >= meo))
        for i in range(nk):
            present = OR([hit(b, known[i]) for b in blocks])
            g.check(IFF(gp[i] == 1, present), "split-exon read profile: 1 iff a read block overlaps the segment enough")
            between = AND(blocks[0][0] <= known[i][1], known[i][0] <= blocks[-1][1])
            g.check(IMPLIES(gp[i] == -1, AND(NOT(present), between)), "split-exon read profile: -1 only inside the read span")
            strictly_between = AND(blocks[0][1] < known[i][0], known[i][1] < blocks[-1][0])
            g.check(IMPLIES(AND(strictly_between, NOT(OR([AND(b[0] <= known[i][1], known[i][0] <= b[1]) for b in blocks]))),
                            gp[i] == -1), "split-exon read profile: a segment skipped inside the read is -1")
    return fn


# ------------------------------------------------------------------------------ profile helpers
def _profiles(g, n):
    return [g.int("p%d" % i, -2, 1) for i in range(n)], [g.int("q%d" % i, -2, 1) for i in range(n)]


def h_ph_difference(n):
    def fn(g):
        p1, p2 = _profiles(g, n)
        r = call(g, common.difference_in_present_features, p1, p2)
        g.check(r == count_true([AND(p1[i] != 0, p2[i] != 0, p1[i] != p2[i]) for i in range(n)]),
                "difference_in_present_features = Hamming distance on informative positions")
    return fn


def h_ph_both(n):
    def fn(g):
        p1, p2 = _profiles(g, n)
        r = call(g, common.count_both_present_features, p1, p2)
        g.check(r == count_true([AND(p1[i] == 1, p2[i] == 1) for i in range(n)]), "count_both_present_features")
    return fn


def h_ph_allpresent(n):
    def fn(g):
        p1, p2 = _profiles(g, n)
        r = call(g, common.all_features_present, p1, p2)
        g.check(IFF(r, AND([IMPLIES(p1[i] == 1, p2[i] == 1) for i in range(n)])), "all_features_present")
    return fn


def h_ph_overlapping(n):
    def fn(g):
        p1, p2 = _profiles(g, n)
        r = call(g, common.has_overlapping_features, p1, p2)
        g.check(IFF(r, OR([AND(p1[i] == 1, p2[i] == 1) for i in range(n)])), "has_overlapping_features")
    return fn


def h_ph_inconsistent(n):
    def fn(g):
        p1, p2 = _profiles(g, n)
        r = call(g, common.has_inconsistent_features, p1, p2)
        g.check(IFF(r, OR([AND(p1[i] != 0, p1[i] != p2[i]) for i in range(n)])), "has_inconsistent_features")
    return fn


def h_ph_equal_in_range(n):
    def fn(g):
        p1, p2 = _profiles(g, n)
        lo = g.choice("lo", n + 1)
        hi = g.choice("hi", n + 1)
        r = call(g, common.equal_profiles_in_range, p1, p2, (lo, hi))
        g.check(IFF(r, AND([IMPLIES(p2[i] != 0, p1[i] == p2[i]) for i in range(lo, hi)])), "equal_profiles_in_range")
    return fn


def h_ph_mask(n):
    def fn(g):
        p1, p2 = _profiles(g, n)
        m = call(g, common.mask_profile, p1, p2)
        g.check(AND([m[i] == ITE(p2[i] == 1, p1[i], 0) for i in range(n)]), "mask_profile")
        f = call(g, common.find_matching_positions, p1, p2)
        g.check(AND([IFF(f[i] == 1, p1[i] == p2[i]) for i in range(n)]), "find_matching_positions")
    return fn


def h_ph_subprofile(n):
    def fn(g):
        # short profile has no zeroes and at least one informative position (the function asserts it)
        p1 = [g.int("p%d" % i, -2, 1) for i in range(n)]
        p2 = [g.int("q%d" % i, -2, 1) for i in range(n)]
        for x in p1:
            g.add(x != 0)
        g.assume(OR([OR(x == 1, x == -1) for x in p1]))
        r = call(g, common.is_subprofile, p1, p2)
        inf = [OR(p1[i] == 1, p1[i] == -1) for i in range(n)]
        inside = [AND(OR(inf[:i + 1]), OR(inf[i:])) for i in range(n)]
        g.check(IFF(r, AND([IMPLIES(inside[i], p1[i] == p2[i]) for i in range(n)])),
                "is_subprofile: profiles agree between the first and last informative position")
    return fn


PH = [("difference", h_ph_difference, ["difference_in_present_features"]),
      ("both_present", h_ph_both, ["count_both_present_features"]),
      ("all_present", h_ph_allpresent, ["all_features_present"]),
      ("overlapping", h_ph_overlapping, ["has_overlapping_features"]),
      ("inconsistent", h_ph_inconsistent, ["has_inconsistent_features"]),
      ("equal_in_range", h_ph_equal_in_range, ["equal_profiles_in_range"]),
      ("mask", h_ph_mask, ["mask_profile", "find_matching_positions"]),
      ("subprofile", h_ph_subprofile, ["is_subprofile"])]


def h_truncation_flags(n):
    def fn(g):
        p1 = [g.int("p%d" % i, -2, 1) for i in range(n)]
        p2 = [g.int("q%d" % i, -2, 1) for i in range(n)]
        r = call(g, common.left_truncated, p1, p2)
        f1 = [AND(p1[i] == 1, AND([p1[j] != 1 for j in range(i)])) for i in range(n)]
        f2 = [AND(p2[i] == 1, AND([p2[j] != 1 for j in range(i)])) for i in range(n)]
        none1 = AND([p1[i] != 1 for i in range(n)])
        none2 = AND([p2[i] != 1 for i in range(n)])
        g.check(IFF(r, OR(none1, none2, OR([AND(f1[i], f2[j]) for i in range(n) for j in range(n) if i > j]))),
                "left_truncated: first present read feature after the isoform's first")
        r = call(g, common.right_truncated, p1, p2)
        l1 = [AND(p1[i] == 1, AND([p1[j] != 1 for j in range(i + 1, n)])) for i in range(n)]
        l2 = [AND(p2[i] == 1, AND([p2[j] != 1 for j in range(i + 1, n)])) for i in range(n)]
        g.check(IFF(r, OR(none1, none2, OR([AND(l1[i], l2[j]) for i in range(n) for j in range(n) if i < j]))),
                "right_truncated: last present read feature before the isoform's last")
    return fn


# ------------------------------------------------------------------------------ instances
def instances(tier, seed):
    q = tier == "quick"
    out = [Instance("pairs", h_pairs, [C + f for f in (
        "overlaps", "overlap_intervals", "intersection_len", "left_of", "contains", "covers_end", "covers_start",
        "equal_ranges", "contains_well_inside", "contains_approx", "max_range", "interval_len", "overlaps_at_least",
        "overlaps_at_least_when_overlap")], "two free intervals, free delta>=0, free point")]
    # the step-halving search probes an inner index before its right neighbour only from 4 intervals on
    for n in ((1, 2, 3, 4, 5) if q else (1, 2, 3, 4, 5, 6, 7, 8, 9)):
        out.append(Instance("binsearch[%d]" % n, h_binsearch(n, False), [C + "interval_bin_search"], "list of %d" % n))
        out.append(Instance("binsearch_rev[%d]" % n, h_binsearch(n, True), [C + "interval_bin_search_rev"], "list of %d" % n))
    for n in ((1, 2, 3) if q else (1, 2, 3, 4, 5, 6)):
        out.append(Instance("sums[%d]" % n, h_sums(n), [C + "intervals_total_length", C + "sum_intervals_to_point",
                                                     C + "sum_intervals_from_point"], "list of %d intervals, free point" % n))
        out.append(Instance("extra_exon[%d]" % n, h_extra_exon(n), [C + "extra_exon_percentage"], "list of %d + region" % n))
        out.append(Instance("junctions[%d]" % n, h_junctions(n), [C + f for f in (
            "junctions_from_blocks", "get_exons", "get_exon", "get_following_exon_from_junctions",
            "get_preceding_exon_from_junctions")], "list of %d blocks" % n))
    for n in ((1, 2, 3) if q else (1, 2, 3, 4)):
        out.append(Instance("get_exons_region[%d]" % n, h_get_exons_region(n), [C + "get_exons"], "%d introns in a free region" % n))
        out.append(Instance("truncate[%d]" % n, h_truncate(n), [C + "truncate_read_to_polya"], "%d exons, polyA/polyT free inside exons" % n))
    sizes = [(a, b) for a in (1, 2, 3) for b in (1, 2, 3)] if q else \
        [(a, b) for a in (1, 2, 3, 4) for b in (1, 2, 3, 4)]
    for a, b in sizes:
        out.append(Instance("two_lists[%d,%d]" % (a, b), h_two_lists(a, b),
                            [C + "merge_ranges", C + "jaccard_similarity", C + "read_coverage_fraction"],
                            "lists of %d and %d intervals" % (a, b), weight=a * b * a * b, budget_s=900))
    for n in ((1, 2, 3) if q else (1, 2, 3, 4)):
        out.append(Instance("split_exons[%d]" % n, h_split_exons(n), ["src.gene_info:GeneInfo.split_exons"],
                            "%d distinct possibly overlapping exons" % n, weight=n ** 3, budget_s=900))
    for nf, k in ([(2, 1), (3, 2), (4, 2)] if q else [(2, 1), (3, 2), (4, 2), (4, 3), (5, 3)]):
        out.append(Instance("set_profiles[%d,%d]" % (nf, k), h_set_profiles(nf, k), ["src.gene_info:FeatureProfiles.set_profiles"],
                            "%d known features, isoform with %d of them" % (nf, k), weight=nf * k, budget_s=600))
    for n, k in ([(3, 1), (4, 2)] if q else [(3, 1), (4, 2), (5, 2), (5, 3)]):
        out.append(Instance("split_profile[%d,%d]" % (n, k), h_split_profile(n, k), ["src.gene_info:FeatureProfiles.set_profiles"],
                            "%d segments, isoform with %d exons" % (n, k), weight=n * k, budget_s=600))
    rp_sizes = [(1, 2), (2, 2)] if q else [(1, 2), (2, 2), (2, 3), (3, 3), (3, 4)]
    for nr, nk in rp_sizes:
        for kind in ("intron", "exon"):
            out.append(Instance("read_profile_%s[%d,%d]" % (kind, nr, nk), h_read_profile_overlapping(nr, nk, kind),
                                ["src.long_read_profiles:OverlappingFeaturesProfileConstructor.construct_profile_for_features",
                                 "src.long_read_profiles:OverlappingFeaturesProfileConstructor.construct_%s_profile" % kind,
                                 C + "equal_ranges", C + "overlaps_at_least", C + "contains"],
                                "%d read x %d known %ss, delta in [0,12]" % (nr, nk, kind), weight=40 * nr * nk, budget_s=1500))
        out.append(Instance("read_profile_split[%d,%d]" % (nr + 1, nk + 1), h_read_profile_split(nr + 1, nk + 1),
                            ["src.long_read_profiles:NonOverlappingFeaturesProfileConstructor.construct_profile",
                             C + "overlaps_at_least_when_overlap"],
                            "%d read blocks x %d segments" % (nr + 1, nk + 1), weight=30 * nr * nk, budget_s=1500))
    for n in ((1, 2, 3) if q else (1, 2, 3, 4)):
        for nm, h, fs in PH:
            out.append(Instance("profile_%s[%d]" % (nm, n), h(n), [C + f for f in fs],
                                "profiles of length %d over {-2,-1,0,1}" % n, weight=n))
        out.append(Instance("truncation_flags[%d]" % n, h_truncation_flags(n), [C + "left_truncated", C + "right_truncated"],
                            "profiles of length %d" % n, weight=n))
    # the profile constructors are pure: a second read through the same constructor gets the profile a fresh one gives (shared with C13)
    from props import c13
    for locus in (["skip+alt"] if q else sorted(c13.LOCI)):
        out.append(Instance("read_profile_history[%s]" % locus, c13.h_profile_history(locus, 6),
                            ["src.long_read_profiles:CombinedProfileConstructor.construct_profiles",
                             "src.long_read_profiles:OverlappingFeaturesProfileConstructor.construct_profile_for_features"],
                            "locus %s, two reads with the same span through one constructor" % locus, weight=400, budget_s=900))
    return out
