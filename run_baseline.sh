#!/bin/bash
# runs the repository's pinned test suite (guard off), the way BASELINE.json does
cd /repo && env -u ABLAB_ISOQUANT_VERIF PATH=/venv/bin:$PATH /venv/bin/python -m pytest -ra -q -p no:cacheprovider --timeout=900 --continue-on-collection-errors "$@"
