#!/usr/bin/env python3
"""validate MANIFEST.json and evidence/*.json against the schemas in /root/.vp (python3-vt has jsonschema)"""
import glob, json, sys
import jsonschema
ok = True
m = json.load(open("/verif/MANIFEST.json"))
jsonschema.validate(m, json.load(open("/root/.vp/MANIFEST.schema.json")))
print("MANIFEST ok: %d checks, %d not_applicable" % (len(m["checks"]), len(m.get("not_applicable", []))))
es = json.load(open("/root/.vp/EVIDENCE.schema.json"))
for f in sorted(glob.glob("/verif/evidence/*.json")):
    try:
        jsonschema.validate(json.load(open(f)), es)
        print("evidence ok:", f)
    except Exception as e:
        ok = False
        print("evidence INVALID:", f, str(e)[:300])
ids = {c["property_id"] for c in m["checks"]} | {n["property_id"] for n in m.get("not_applicable", [])}
want = {json.loads(l)["id"] for l in open("/verif/properties.jsonl")}
if ids != want:
    ok = False
    print("property coverage mismatch:", sorted(want - ids), sorted(ids - want))
sys.exit(0 if ok else 1)
