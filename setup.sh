#!/bin/bash
# Creates /verif/.venv: an overlay on /venv (the repository's interpreter and its packages)
# plus z3-solver and crosshair-tool from the offline wheelhouse.  Idempotent, offline.
set -e
HERE="$(cd "$(dirname "$0")" && pwd)"
VENV="$HERE/.venv"
if [ -x "$VENV/bin/python" ] && "$VENV/bin/python" -c "import z3, crosshair, pysam" >/dev/null 2>&1; then
    exit 0
fi
LOCK="$HERE/.venv.lock"
exec 9>"$LOCK"
flock 9
if [ -x "$VENV/bin/python" ] && "$VENV/bin/python" -c "import z3, crosshair, pysam" >/dev/null 2>&1; then
    exit 0
fi
rm -rf "$VENV"
/venv/bin/python -m venv "$VENV"
SP="$VENV/lib/python3.12/site-packages"
echo "import site; site.addsitedir('/venv/lib/python3.12/site-packages')" > "$SP/zz_venv.pth"
PIP_NO_INDEX=1 "$VENV/bin/pip" install -q --no-index --find-links /opt/veriftools/wheels z3-solver crosshair-tool >/dev/null
"$VENV/bin/python" -c "import z3, crosshair, pysam; print('verif venv ready: z3', z3.get_version_string())"
