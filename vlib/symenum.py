"""Symbolic member of a real Enum class: the value is a SymInt ranging over the members' values; every
predicate method of the enum (zero-argument methods returning bool) is answered by evaluating the REAL
method on each concrete member and building the disjunction, so the proxy follows the source."""
import enum
import inspect

from .symx import SymInt, SymBool, OR, mk_bool
import z3


class SymEnum:
    def __init__(self, g, enum_cls, name, allowed=None):
        self._cls = enum_cls
        self._members = [m for m in enum_cls if allowed is None or m in allowed]
        self._g = g
        if getattr(g, "symbolic", False):
            self._v = g.int(name)
            g.add(z3.Or(*[self._v.e == m.value for m in self._members]))
            self._concrete = None
        else:
            val = g.int(name)
            self._concrete = enum_cls(val)
            if self._concrete not in self._members:
                from .symx import PathAbort
                raise PathAbort()
            self._v = val

    @property
    def value(self):
        return self._v

    def is_member(self, m):
        return self._v == m.value

    def __eq__(self, o):
        if isinstance(o, SymEnum):
            return self._v == o._v
        if isinstance(o, self._cls):
            return self._v == o.value
        return False

    def __ne__(self, o):
        r = self.__eq__(o)
        if isinstance(r, SymBool):
            return ~r
        return not r

    def __hash__(self):
        # hashing forces the member to be decided (complete case split)
        return hash(self.decide())

    def decide(self):
        if self._concrete is not None:
            return self._concrete
        for m in self._members:
            if self._v == m.value:
                return m
        raise AssertionError("unreachable")

    @property
    def name(self):
        return self.decide().name

    def __getattr__(self, attr):
        # predicate methods: evaluate the real method on every member
        f = getattr(self._cls, attr, None)
        if f is None or not callable(f):
            raise AttributeError(attr)
        if self._concrete is not None:
            return getattr(self._concrete, attr)

        def pred(*a, **kw):
            res = [(m, f(m, *a, **kw)) for m in self._members]
            if all(isinstance(r, bool) for _, r in res):
                yes = [self._v == m.value for m, r in res if r]
                return OR(yes) if yes else False
            return f(self.decide(), *a, **kw)
        return pred

    def __repr__(self):
        return "SymEnum(%s)" % self._cls.__name__


def as_member(x):
    """SymEnum or real member -> comparable value term / int"""
    if isinstance(x, SymEnum):
        return x.value
    return x.value
