"""symx - proxy-based symbolic execution of unmodified Python functions on z3.

Inputs are proxy objects (SymInt / SymBool / SymReal).  Arithmetic builds z3 terms; the only place a
path forks is a truth test (SymBool.__bool__) or a forced concretisation (__index__/__hash__), where
the engine asks z3 which sides are feasible under the current path condition, follows one and queues
the other (DFS over decision prefixes, re-executing the harness for each path).

A harness is a function fn(g) that builds symbolic inputs with g.int()/g.real()/g.bool(), calls the
real code and states obligations with g.check(cond, label).  explore() returns when the work list is
empty (all paths inside the bound explored), a counterexample was found, or a budget ran out (the
remainder is then reported as inconclusive, never as success).
"""
import math
import time
from fractions import Fraction

import z3


class PathAbort(BaseException):
    """infeasible path / assumption failed - not an error"""


class Inconclusive(BaseException):
    """path given up (too many values to split on, solver unknown)"""


def _plain(x):
    """detail values must cross process boundaries: symbolic members are replaced by a marker (the replay recomputes them)"""
    if isinstance(x, dict):
        return {str(k): _plain(v) for k, v in x.items()}
    if isinstance(x, (list, tuple)):
        return [_plain(v) for v in x]
    if x is None or type(x) in (bool, int, float, str):
        return x
    if type(x).__name__ in ("SymInt", "SymBool", "SymReal"):
        return "<symbolic>"
    try:
        return repr(x)[:200]
    except BaseException:  # noqa
        return "<unprintable>"


class Counterexample(BaseException):
    def __init__(self, label, model, detail=None):
        self.label = label
        self.model = model
        self.detail = _plain(detail)


HASH_SPLIT_MAX = 64


class Engine:
    symbolic = True

    def __init__(self, timeout_ms=20000, seed=0, active_findings=()):
        self.active = set(active_findings)
        self.solver = z3.Solver()
        self.solver.set("timeout", timeout_ms)
        if seed:
            self.solver.set("random_seed", seed % (2 ** 31))
        self.decisions = []
        self.prefix = []
        self.pos = 0
        self.stack = []
        self.paths = 0
        self.paths_aborted = 0
        self.paths_reached = 0      # paths on which at least one check() was evaluated
        self.queries = 0
        self.solver_time = 0.0
        self.vars = {}
        self.lit = {}
        self.model = None
        self.inconclusive = []      # list of reasons
        self.obligations = 0
        self.discharged = 0
        self.labels = {}
        self.samples = []           # witnesses of paths that reached an assertion
        self.excluded = {}          # known-finding id -> number of obligations where the exclusion was applied
        self.known_hits = {}        # known-finding id -> model inside the excluded class (first one)
        self._reached_this_path = False
        self.max_samples = 3
        self.deadline = None
        self.fresh_id = 0
        self.sentinels = {}
        self.sentinel_terms = {}
        self.sentinel_reals = {}
        self.batch = False
        self._pending = []

    # ---------------------------------------------------------------- inputs
    def int(self, name, lo=None, hi=None):
        v = z3.Int(name)
        self.vars[name] = v
        if lo is not None:
            self.add(v >= lift_int(lo))
        if hi is not None:
            self.add(v <= lift_int(hi))
        return SymInt(self, v)

    def real(self, name, lo=None, hi=None):
        v = z3.Real(name)
        self.vars[name] = v
        if lo is not None:
            self.add(v >= _real_const(lo))
        if hi is not None:
            self.add(v <= _real_const(hi))
        return SymReal(self, v)

    def bool(self, name):
        v = z3.Bool(name)
        self.vars[name] = v
        return SymBool(self, v)

    def sentinel(self, e):
        key = e.get_id()
        hit = self.sentinels.get(key)
        if hit is None:
            hit = (e, SentinelInt(SENTINEL_BASE + 7919 * (len(self.sentinels) + 1)))
            self.sentinels[key] = hit
            self.sentinel_terms[int.__int__(hit[1])] = e
        return hit[1]

    def sentinel_real(self, e):
        key = ("r", e.get_id())
        hit = self.sentinels.get(key)
        if hit is None:
            hit = (e, float(SENTINEL_BASE + 7919 * (len(self.sentinels) + 1)))
            self.sentinels[key] = hit
            self.sentinel_reals[int(hit[1])] = e
        return hit[1]

    def unsentinel_real(self, v):
        """float or decimal text (as printed by %.2f / %.6f) -> SymReal if it is a sentinel, else float"""
        f = float(v)
        if f >= SENTINEL_BASE and f == int(f):
            e = self.sentinel_reals.get(int(f))
            if e is not None:
                return SymReal(self, e)
            e = self.sentinel_terms.get(int(f))
            if e is not None:
                return SymReal(self, z3.ToReal(e), int_term=e)
        return f

    def unsentinel(self, v):
        """int or decimal text -> SymInt if it is a sentinel, else the int itself"""
        n = int.__int__(v) if isinstance(v, int) else int(v)
        e = self.sentinel_terms.get(n)
        return SymInt(self, e) if e is not None else n

    def fresh_int(self, stem="t"):
        self.fresh_id += 1
        return SymInt(self, z3.Int("%s!%d" % (stem, self.fresh_id)))

    def choice(self, name, n):
        """a concrete value in range(n) chosen by the solver (complete case split)"""
        v = self.int(name, 0, n - 1)
        return self.concretize(v.e, limit=n + 1)

    # ---------------------------------------------------------------- solver plumbing
    def add(self, e):
        if isinstance(e, SymBool):
            e = e.e
        elif isinstance(e, bool):
            e = z3.BoolVal(e)
        self.solver.add(e)
        self.model = None

    def assume(self, b):
        """restrict the path to b (symbolic or concrete); infeasible -> path dropped"""
        if self._pending:
            self.flush()
        if isinstance(b, SymBool):
            e = z3.simplify(b.e)
            if z3.is_true(e):
                return
            if z3.is_false(e):
                raise PathAbort()
            self.solver.add(e)
            self.model = None
            r = self._check()
            if r == z3.unsat:
                raise PathAbort()
            if r == z3.unknown:
                raise Inconclusive("assume: solver unknown")
        elif not b:
            raise PathAbort()

    def _check(self, *extra):
        if self.deadline is not None and time.time() > self.deadline:
            raise Inconclusive("time budget exhausted")
        t = time.time()
        r = self.solver.check(*extra)
        self.solver_time += time.time() - t
        self.queries += 1
        return r

    def _get_model(self):
        if self.model is None:
            r = self._check()
            if r == z3.unsat:
                raise PathAbort()
            if r == z3.unknown:
                raise Inconclusive("solver unknown on path condition")
            self.model = self.solver.model()
        return self.model

    def branch(self, e):
        """decide the truth value of z3 Bool e on this path (forks)"""
        e = z3.simplify(e)
        if z3.is_true(e):
            return True
        if z3.is_false(e):
            return False
        key = e.get_id()
        hit = self.lit.get(key)
        if hit is not None:
            return hit[1]
        if self.pos < len(self.prefix):
            d = self.prefix[self.pos]
            self.model = None
        else:
            m = self._get_model()
            mv = z3.is_true(m.eval(e, model_completion=True))
            other = z3.Not(e) if mv else e
            r = self._check(other)
            if r == z3.sat:
                self.stack.append(self.decisions[:self.pos] + [not mv])
            elif r == z3.unknown:
                self.inconclusive.append("branch: solver unknown on one side")
            d = mv
        self.decisions.append(d)
        self.pos += 1
        self.solver.add(e if d else z3.Not(e))
        ne = z3.simplify(z3.Not(e))
        # keep the expressions alive so that their ids are not reused
        self.lit[key] = (e, d)
        self.lit[ne.get_id()] = (ne, not d)
        return d

    def concretize(self, e, limit=HASH_SPLIT_MAX):
        """complete case split over the feasible integer values of term e"""
        e = z3.simplify(e)
        if z3.is_int_value(e):
            return e.as_long()
        n = 0
        while True:
            m = self._get_model()
            v = m.eval(e, model_completion=True).as_long()
            if self.branch(e == v):
                return v
            n += 1
            if n > limit:
                raise Inconclusive("concretize: more than %d feasible values" % limit)

    # ---------------------------------------------------------------- obligations
    def model_values(self, m=None):
        m = m or self.solver.model()
        out = {}
        for k, v in self.vars.items():
            val = m.eval(v, model_completion=True)
            out[k] = _pyval(val)
        return out

    def check(self, cond, label="", exclude=None, detail=None):
        """obligation: cond holds for every value on this path.

        exclude: dict finding_id -> SymBool/bool describing the input class of a listed known
        finding; the obligation is then  (not class) => cond, and a hit inside the class is recorded.
        Raises Counterexample on a model of  path and not cond."""
        if self.batch and not (isinstance(cond, bool) and not cond):
            ce = _bool_expr(cond)
            if exclude:
                ce = z3.Or(ce, *[_bool_expr(c) for c in exclude.values()])
                for fid in exclude:
                    self.excluded[fid] = self.excluded.get(fid, 0) + 1
            self._pending.append((label, ce, detail))
            return
        if self._pending:
            self.flush()
        self.obligations += 1
        self.labels[label] = self.labels.get(label, 0) + 1
        if not self._reached_this_path:
            self._reached_this_path = True
            self.paths_reached += 1
            if len(self.samples) < self.max_samples:
                try:
                    self.samples.append({"label": label, "witness": self.model_values(self._get_model())})
                except (PathAbort, Inconclusive):
                    pass
        ce = _bool_expr(cond)
        neg = z3.simplify(z3.Not(ce))
        if z3.is_false(neg):
            self.discharged += 1
            return
        extra = [neg]
        if exclude:
            for fid, cls in exclude.items():
                cexp = _bool_expr(cls)
                if fid not in self.known_hits:
                    r = self._check(neg, cexp)
                    if r == z3.sat:
                        self.known_hits[fid] = self.model_values()
                self.excluded[fid] = self.excluded.get(fid, 0) + 1
                extra.append(z3.Not(cexp))
        r = self._check(*extra)
        if r == z3.unsat:
            self.discharged += 1
            return
        if r == z3.unknown:
            self.inconclusive.append("check %s: solver unknown" % label)
            return
        raise Counterexample(label, self.model_values(), detail)

    def holds(self, cond):
        """True if cond is valid on this path, False if refutable, None if unknown (no obligation)"""
        neg = z3.simplify(z3.Not(_bool_expr(cond)))
        if z3.is_false(neg):
            return True
        r = self._check(neg)
        return True if r == z3.unsat else (False if r == z3.sat else None)

    def check_ratio(self, r, num, den, label, exclude=None):
        """obligation r == num/den (den != 0): decided linearly when the code's own quotient has the
        same numerator and denominator as the specification, otherwise by cross-multiplication"""
        if isinstance(r, SymReal) and r.ratio is not None:
            n, d = r.ratio
            lin = z3.And(n == lift_int(num), d == lift_int(den))
            if self.holds(lin):
                self.check(lin, label, exclude=exclude)
                return
        self.check(r * den == num, label, exclude=exclude)

    def fail(self, label, detail=None, exclude=None):
        """the current path itself is a violation (e.g. unexpected exception)"""
        self.check(False, label, exclude=exclude, detail=detail)

    def flush(self):
        """batch mode: decide all obligations collected on this path with one query for their
        conjunction; on a model, report the first obligation that it falsifies"""
        pend, self._pending = self._pending, []
        if not pend:
            return
        n = len(pend)
        self.obligations += n
        for label, _, _ in pend:
            self.labels[label] = self.labels.get(label, 0) + 1
        if not self._reached_this_path:
            self._reached_this_path = True
            self.paths_reached += 1
            if len(self.samples) < self.max_samples:
                try:
                    self.samples.append({"label": pend[0][0], "witness": self.model_values(self._get_model())})
                except (PathAbort, Inconclusive):
                    pass
        conj = z3.simplify(z3.And(*[c for _, c, _ in pend]))
        if z3.is_true(conj):
            self.discharged += n
            return
        r = self._check(z3.Not(conj))
        if r == z3.unsat:
            self.discharged += n
            return
        if r == z3.unknown:
            self.inconclusive.append("batched check (%d obligations, first %s): solver unknown" % (n, pend[0][0]))
            return
        m = self.solver.model()
        for label, c, detail in pend:
            if z3.is_false(m.eval(c, model_completion=True)):
                raise Counterexample(label, self.model_values(m), detail)
        raise Counterexample(pend[0][0], self.model_values(m), pend[0][2])

    def excl(self, d):
        """keep only the classes of findings that are listed (and re-confirmed) as known"""
        return {k: v for k, v in d.items() if k in self.active}

    # ---------------------------------------------------------------- exploration
    def explore(self, fn, max_paths=None, budget_s=None, prefixes=None, handoff_s=None, deadline=None):
        """returns Counterexample or None.  handoff_s: after that many seconds stop and leave the
        unexplored decision prefixes in self.pending (disjoint subtrees, explored by other workers)."""
        self.stack = [list(p) for p in prefixes] if prefixes else [[]]
        self.pending = []
        t_start = time.time()
        if budget_s:
            self.deadline = time.time() + budget_s
        if deadline:
            self.deadline = deadline
        while self.stack:
            if handoff_s is not None and time.time() - t_start > handoff_s:
                self.pending = self.stack
                self.stack = []
                break
            if max_paths is not None and self.paths >= max_paths:
                self.inconclusive.append("path limit %d reached, %d prefixes pending" % (max_paths, len(self.stack)))
                break
            if self.deadline is not None and time.time() > self.deadline:
                self.inconclusive.append("time budget exhausted, %d prefixes pending" % len(self.stack))
                break
            self.prefix = self.stack.pop()
            self.decisions = []
            self.pos = 0
            self.vars = {}
            self.lit = {}
            self.model = None
            self.fresh_id = 0
            self.sentinels = {}
            self.sentinel_terms = {}
            self.sentinel_reals = {}
            self._reached_this_path = False
            self._pending = []
            self.solver.push()
            try:
                fn(self)
                self.flush()
            except PathAbort:
                self.paths_aborted += 1
            except Inconclusive as e:
                self.inconclusive.append(str(e))
            except Counterexample as c:
                self.paths += 1
                return c
            finally:
                self.solver.pop()
            self.paths += 1
        return None

    def stats(self):
        return {"paths": self.paths, "paths_reached_assertion": self.paths_reached,
                "paths_infeasible": self.paths_aborted, "queries": self.queries,
                "solver_s": round(self.solver_time, 3), "obligations": self.obligations,
                "discharged": self.discharged, "inconclusive": list(self.inconclusive[:5]),
                "n_inconclusive": len(self.inconclusive), "labels": dict(self.labels),
                "samples": self.samples, "excluded": dict(self.excluded),
                "known_hits": dict(self.known_hits)}


class SentinelMisuse(Exception):
    pass


class SentinelInt(int):
    """printable stand-in for a symbolic int; any arithmetic or comparison on it is a harness error"""
    def _bad(self, *a, **k):
        raise SentinelMisuse("sentinel of a symbolic int used in a computation (int()/%d result reused)")
    __add__ = __radd__ = __sub__ = __rsub__ = __mul__ = __rmul__ = __floordiv__ = __rfloordiv__ = _bad
    __truediv__ = __rtruediv__ = __mod__ = __rmod__ = __neg__ = __abs__ = _bad
    __lt__ = __le__ = __gt__ = __ge__ = _bad
    __hash__ = int.__hash__

    def __eq__(self, o):
        if isinstance(o, SentinelInt):
            return int.__eq__(self, o)
        self._bad()

    def __ne__(self, o):
        return not self.__eq__(o)


SENTINEL_BASE = 7 * 10 ** 15


# -------------------------------------------------------------------- helpers
def _pyval(val):
    if z3.is_int_value(val):
        return val.as_long()
    if z3.is_rational_value(val):
        fr = Fraction(val.numerator_as_long(), val.denominator_as_long())
        return {"real": [fr.numerator, fr.denominator]}
    if z3.is_true(val):
        return True
    if z3.is_false(val):
        return False
    return str(val)


def _real_const(x):
    if isinstance(x, float):
        return z3.RealVal(Fraction(x))
    if isinstance(x, Fraction):
        return z3.RealVal(x)
    return z3.RealVal(x)


def _bool_expr(c):
    if isinstance(c, SymBool):
        return c.e
    if isinstance(c, z3.BoolRef):
        return c
    if isinstance(c, (SymInt, SymReal)):
        return c.e != 0
    return z3.BoolVal(bool(c))


def is_sym(x):
    return isinstance(x, (SymInt, SymBool, SymReal))


def lift_int(x):
    """python int / SymInt / bool -> z3 Int term (None if not integral)"""
    if isinstance(x, SymInt):
        return x.e
    if isinstance(x, SymBool):
        return z3.If(x.e, 1, 0)
    if isinstance(x, bool):
        return z3.IntVal(int(x))
    if isinstance(x, int):
        return z3.IntVal(x)
    return None


def lift_real(x):
    if isinstance(x, SymReal):
        return x.e
    if isinstance(x, SymInt):
        return z3.ToReal(x.e)
    if isinstance(x, SymBool):
        return z3.If(x.e, z3.RealVal(1), z3.RealVal(0))
    if isinstance(x, bool):
        return z3.RealVal(int(x))
    if isinstance(x, int):
        return z3.RealVal(x)
    if isinstance(x, float):
        return z3.RealVal(Fraction(x))
    if isinstance(x, Fraction):
        return z3.RealVal(x)
    return None


def lift(x):
    """any numeric -> z3 term (Int for ints, Real for reals)"""
    r = lift_int(x)
    if r is not None:
        return r
    return lift_real(x)


def engine_of(*xs):
    for x in xs:
        if is_sym(x):
            return x.g
    return None


def mk_int(g, e):
    e = z3.simplify(e)
    if z3.is_int_value(e):
        return e.as_long()
    return SymInt(g, e)


def mk_real(g, e):
    e = z3.simplify(e)
    return SymReal(g, e)


def mk_bool(g, e):
    e = z3.simplify(e)
    if z3.is_true(e):
        return True
    if z3.is_false(e):
        return False
    return SymBool(g, e)


class SymBool:
    __slots__ = ("g", "e")

    def __init__(self, g, e):
        self.g = g
        self.e = e

    def __bool__(self):
        return self.g.branch(self.e)

    def _o(self, o):
        if isinstance(o, SymBool):
            return o.e
        if isinstance(o, (bool, int)):
            return z3.BoolVal(bool(o))
        return None

    def __and__(self, o):
        oe = self._o(o)
        return NotImplemented if oe is None else mk_bool(self.g, z3.And(self.e, oe))

    __rand__ = __and__

    def __or__(self, o):
        oe = self._o(o)
        return NotImplemented if oe is None else mk_bool(self.g, z3.Or(self.e, oe))

    __ror__ = __or__

    def __invert__(self):
        return mk_bool(self.g, z3.Not(self.e))

    def __eq__(self, o):
        oe = self._o(o)
        return False if oe is None else mk_bool(self.g, self.e == oe)

    def __ne__(self, o):
        oe = self._o(o)
        return True if oe is None else mk_bool(self.g, self.e != oe)

    # a bool used as a number (sum of flags, int(b))
    def _as_int(self):
        return SymInt(self.g, z3.If(self.e, 1, 0))

    def __add__(self, o): return self._as_int() + o
    def __radd__(self, o): return o + self._as_int()
    def __int__(self): return 1 if bool(self) else 0
    def __index__(self): return 1 if bool(self) else 0
    def __hash__(self): return hash(bool(self))
    def __repr__(self): return "SymBool(%s)" % self.e


def AND(*xs):
    if len(xs) == 1 and isinstance(xs[0], (list, tuple)):
        xs = tuple(xs[0])
    g = engine_of(*xs)
    if g is None:
        return all(bool(x) for x in xs)
    return mk_bool(g, z3.And(*[_bool_expr(x) for x in xs])) if xs else True


def OR(*xs):
    if len(xs) == 1 and isinstance(xs[0], (list, tuple)):
        xs = tuple(xs[0])
    g = engine_of(*xs)
    if g is None:
        return any(bool(x) for x in xs)
    return mk_bool(g, z3.Or(*[_bool_expr(x) for x in xs])) if xs else False


def NOT(x):
    g = engine_of(x)
    if g is None:
        return not x
    return mk_bool(g, z3.Not(_bool_expr(x)))


def IMPLIES(a, b):
    g = engine_of(a, b)
    if g is None:
        return (not a) or bool(b)
    return mk_bool(g, z3.Implies(_bool_expr(a), _bool_expr(b)))


def IFF(a, b):
    g = engine_of(a, b)
    if g is None:
        return bool(a) == bool(b)
    return mk_bool(g, _bool_expr(a) == _bool_expr(b))


def ITE(c, a, b):
    """if-then-else on numerics without forking"""
    if not isinstance(c, SymBool):
        return a if c else b
    g = c.g
    ia, ib = lift_int(a), lift_int(b)
    if ia is not None and ib is not None:
        return mk_int(g, z3.If(c.e, ia, ib))
    return mk_real(g, z3.If(c.e, lift_real(a), lift_real(b)))


class SymInt:
    __slots__ = ("g", "e")

    def __init__(self, g, e):
        self.g = g
        self.e = e

    def _bin(self, o, f, rf=None):
        if isinstance(o, float) and (math.isinf(o) or math.isnan(o)):
            return f(0.0, o) if rf is None else rf(0.0, o)
        oe = lift_int(o)
        if oe is not None:
            return mk_int(self.g, f(self.e, oe))
        re_ = lift_real(o)
        if re_ is not None:
            return mk_real(self.g, f(z3.ToReal(self.e), re_))
        return NotImplemented

    def _cmp(self, o, f):
        if isinstance(o, float) and (math.isinf(o) or math.isnan(o)):
            return f(0.0, o)
        oe = lift_int(o)
        if oe is not None:
            return mk_bool(self.g, f(self.e, oe))
        re_ = lift_real(o)
        if re_ is not None:
            return mk_bool(self.g, f(z3.ToReal(self.e), re_))
        return NotImplemented

    def __add__(self, o): return self._bin(o, lambda a, b: a + b)
    def __radd__(self, o): return self._bin(o, lambda a, b: b + a)
    def __sub__(self, o): return self._bin(o, lambda a, b: a - b)
    def __rsub__(self, o): return self._bin(o, lambda a, b: b - a)
    def __mul__(self, o): return self._bin(o, lambda a, b: a * b)
    def __rmul__(self, o): return self._bin(o, lambda a, b: b * a)

    def __truediv__(self, o):
        re_ = lift_real(o)
        if re_ is None:
            return NotImplemented
        _nonzero(self.g, re_)
        r = mk_real(self.g, z3.ToReal(self.e) / re_)
        oi = o.int_term if isinstance(o, SymReal) else lift_int(o)
        if oi is not None:
            r.ratio = (self.e, oi)
        return r

    def __rtruediv__(self, o):
        re_ = lift_real(o)
        if re_ is None:
            return NotImplemented
        _nonzero(self.g, z3.ToReal(self.e))
        return mk_real(self.g, re_ / z3.ToReal(self.e))

    def __floordiv__(self, o):
        oe = lift_int(o)
        if oe is None:
            return NotImplemented
        return _floordiv(self.g, self.e, oe)

    def __rfloordiv__(self, o):
        oe = lift_int(o)
        if oe is None:
            return NotImplemented
        return _floordiv(self.g, oe, self.e)

    def __mod__(self, o):
        oe = lift_int(o)
        if oe is None:
            return NotImplemented
        return _mod(self.g, self.e, oe)

    def __rmod__(self, o):
        oe = lift_int(o)
        if oe is None:
            return NotImplemented
        return _mod(self.g, oe, self.e)

    def __neg__(self): return mk_int(self.g, -self.e)
    def __pos__(self): return self
    def __abs__(self): return mk_int(self.g, z3.If(self.e >= 0, self.e, -self.e))
    def __lt__(self, o): return self._cmp(o, lambda a, b: a < b)
    def __le__(self, o): return self._cmp(o, lambda a, b: a <= b)
    def __gt__(self, o): return self._cmp(o, lambda a, b: a > b)
    def __ge__(self, o): return self._cmp(o, lambda a, b: a >= b)

    def __eq__(self, o):
        r = self._cmp(o, lambda a, b: a == b)
        return False if r is NotImplemented else r

    def __ne__(self, o):
        r = self._cmp(o, lambda a, b: a != b)
        return True if r is NotImplemented else r

    def __bool__(self): return self.g.branch(self.e != 0)
    def __hash__(self): return hash(self.g.concretize(self.e))
    def __index__(self): return self.g.concretize(self.e)
    def __round__(self, n=None): return self

    # text rendering: "%d" % x, str(x), f"{x}" give a unique sentinel number that the harness maps back
    # to the term (g.unsentinel); the sentinel refuses arithmetic, so it cannot leak into computations
    def __int__(self): return self.g.sentinel(self.e)
    def __str__(self): return str(int.__int__(self.g.sentinel(self.e)))
    def __format__(self, spec): return format(int.__int__(self.g.sentinel(self.e)), spec)
    def __repr__(self): return "SymInt(%s)" % self.e

    def __float__(self):
        raise TypeError("float() of a SymInt reached a C boundary: inject vlib.shims.sym_float into the module")


def _nonzero(g, e):
    """division: fork on the divisor being zero, raise like Python does"""
    if g.branch(e == 0):
        raise ZeroDivisionError("division by zero")


def _floordiv(g, a, b):
    # python floor division; z3 div is euclidean (rounds so that remainder >= 0)
    b = z3.simplify(b)
    _nonzero(g, b)
    if z3.is_int_value(b) and b.as_long() > 0:
        return mk_int(g, a / b)
    return mk_int(g, z3.If(b > 0, a / b, (-a) / (-b)))


def _mod(g, a, b):
    b = z3.simplify(b)
    _nonzero(g, b)
    if z3.is_int_value(b) and b.as_long() > 0:
        return mk_int(g, a % b)
    return mk_int(g, z3.If(b > 0, a % b, -((-a) % (-b))))


class SymReal:
    """stands in for Python float; exact rational arithmetic (DESIGN 2.5).
    int_term: set when the value is float(<int term>); ratio: (num, den) int terms when the value was
    produced by dividing two such values - lets oracles compare ratios without nonlinear queries."""
    __slots__ = ("g", "e", "int_term", "ratio")

    def __init__(self, g, e, int_term=None, ratio=None):
        self.g = g
        self.e = e
        self.int_term = int_term
        self.ratio = ratio

    def _b(self, o, f):
        oe = lift_real(o)
        if oe is None:
            return NotImplemented
        return mk_real(self.g, f(self.e, oe))

    def _c(self, o, f):
        oe = lift_real(o)
        if oe is None:
            return NotImplemented
        return mk_bool(self.g, f(self.e, oe))

    def __add__(s, o): return s._b(o, lambda a, b: a + b)
    def __radd__(s, o): return s._b(o, lambda a, b: b + a)
    def __sub__(s, o): return s._b(o, lambda a, b: a - b)
    def __rsub__(s, o): return s._b(o, lambda a, b: b - a)
    def __mul__(s, o): return s._b(o, lambda a, b: a * b)
    def __rmul__(s, o): return s._b(o, lambda a, b: b * a)

    def __truediv__(s, o):
        oe = lift_real(o)
        if oe is None:
            return NotImplemented
        _nonzero(s.g, oe)
        r = mk_real(s.g, s.e / oe)
        oi = o.int_term if isinstance(o, SymReal) else lift_int(o)
        if s.int_term is not None and oi is not None:
            r.ratio = (s.int_term, oi)
        return r

    def __rtruediv__(s, o):
        oe = lift_real(o)
        if oe is None:
            return NotImplemented
        _nonzero(s.g, s.e)
        return mk_real(s.g, oe / s.e)

    def __neg__(s): return mk_real(s.g, -s.e)
    def __pos__(s): return s
    def __abs__(s): return mk_real(s.g, z3.If(s.e >= 0, s.e, -s.e))
    def __lt__(s, o): return s._c(o, lambda a, b: a < b)
    def __le__(s, o): return s._c(o, lambda a, b: a <= b)
    def __gt__(s, o): return s._c(o, lambda a, b: a > b)
    def __ge__(s, o): return s._c(o, lambda a, b: a >= b)

    def __eq__(s, o):
        r = s._c(o, lambda a, b: a == b)
        return False if r is NotImplemented else r

    def __ne__(s, o):
        r = s._c(o, lambda a, b: a != b)
        return True if r is NotImplemented else r

    def __bool__(s): return s.g.branch(s.e != 0)
    __hash__ = None

    def floor(s):
        return mk_int(s.g, z3.ToInt(s.e))

    def __round__(s, n=None):
        # round-half-even is modelled as floor(x + 1/2): identical except at exact .5 ties, which the encoded code
        # cannot produce (its only use is round(0.2 * <int length>))
        if n is None:
            return mk_int(s.g, z3.ToInt(s.e + z3.RealVal("1/2")))
        return s

    def __int__(s):
        # int() truncates toward zero
        t = mk_int(s.g, z3.If(s.e >= 0, z3.ToInt(s.e), -z3.ToInt(-s.e)))
        return t if not isinstance(t, SymInt) else t.__int__()

    # text rendering ("%.2f" % x): a unique sentinel float that the harness maps back (g.unsentinel_real)
    def __float__(s):
        return s.g.sentinel_real(s.e)

    def __repr__(s): return "SymReal(%s)" % s.e


# -------------------------------------------------------------------- non-forking min / max / abs
def sym_min(*args, **kw):
    if len(args) == 1:
        args = tuple(args[0])
    if kw or not any(is_sym(a) for a in args):
        import builtins
        return builtins.min(*args, **kw) if len(args) > 1 else builtins.min(args, **kw)
    g = engine_of(*args)
    acc = args[0]
    for a in args[1:]:
        acc = ITE(_as_symbool(g, a < acc), a, acc)
    return acc


def sym_max(*args, **kw):
    if len(args) == 1:
        args = tuple(args[0])
    if kw or not any(is_sym(a) for a in args):
        import builtins
        return builtins.max(*args, **kw) if len(args) > 1 else builtins.max(args, **kw)
    g = engine_of(*args)
    acc = args[0]
    for a in args[1:]:
        acc = ITE(_as_symbool(g, a > acc), a, acc)
    return acc


def _as_symbool(g, b):
    if isinstance(b, SymBool):
        return b
    return b


def SUM(xs):
    acc = 0
    for x in xs:
        acc = acc + x
    return acc


def BOOL2INT(b):
    if isinstance(b, SymBool):
        return b._as_int()
    return 1 if b else 0


class ConcreteEngine:
    """Runs the same harness with the concrete values of a model (replay): plain ints / floats /
    bools, real code, no proxies.  check() evaluates the oracle concretely."""
    symbolic = False

    def __init__(self, model, active_findings=()):
        self.m = dict(model)
        self.active = set(active_findings)
        self.checked = 0
        self.missing = []

    def _get(self, name, default):
        if name not in self.m:
            self.missing.append(name)
            return default
        return self.m[name]

    def int(self, name, lo=None, hi=None):
        v = self._get(name, lo if lo is not None else (hi if hi is not None else 0))
        if (lo is not None and v < lo) or (hi is not None and v > hi):
            raise PathAbort()
        return v

    def real(self, name, lo=None, hi=None):
        v = self._get(name, 0)
        if isinstance(v, dict):
            v = Fraction(v["real"][0], v["real"][1])
        fv = float(v)
        if (lo is not None and fv < lo) or (hi is not None and fv > hi):
            raise PathAbort()
        return fv

    def bool(self, name):
        return bool(self._get(name, False))

    def choice(self, name, n):
        return self.int(name, 0, n - 1)

    def add(self, e):
        if not e:
            raise PathAbort()

    def assume(self, b):
        if not b:
            raise PathAbort()

    def excl(self, d):
        return {k: v for k, v in d.items() if k in self.active}

    def unsentinel(self, v):
        return int(v)

    def unsentinel_real(self, v):
        return float(v)

    def holds(self, cond):
        return bool(cond)

    def check_ratio(self, r, num, den, label, exclude=None):
        # concrete replay: real floats; compare against the correctly rounded quotient
        self.check(abs(r - num / den) <= 1e-12 * max(1.0, abs(r)), label, exclude=exclude)

    batch = False

    def flush(self):
        pass

    def check(self, cond, label="", exclude=None, detail=None):
        self.checked += 1
        if cond:
            return
        if exclude:
            for fid, cls in exclude.items():
                if cls:
                    return
        raise Counterexample(label, dict(self.m), detail)

    def fail(self, label, detail=None, exclude=None):
        self.check(False, label, exclude=exclude, detail=detail)
