"""Engine B: CrossHair (symbolic execution of Python on z3) for string-valued kernels.

A contract is a small generated module with one private function whose PEP316 docstring holds
pre:/post: lines; the function calls the real /repo code.  Verdicts:
  counterexample  -> re-executed concretely in a fresh process (replay) -> VIOLATION only if it reproduces
  Confirmed over all paths -> discharged
  Not confirmed / Unable to meet precondition -> searched within the time budget, NOT discharged
"""
import ast
import os
import re
import shutil
import subprocess
import sys
import tempfile
import time

VERIF = os.path.dirname(os.path.dirname(os.path.abspath(__file__)))
REPO = os.environ.get("VERIF_REPO", "/repo")


def run_contract(func_name, module_src, per_condition_timeout=30, per_path_timeout=None):
    d = tempfile.mkdtemp(prefix="verif_ch_")
    try:
        path = os.path.join(d, "contract_%s.py" % func_name.strip("_"))
        with open(path, "w") as f:
            f.write(module_src)
        env = dict(os.environ)
        env["PYTHONPATH"] = REPO + os.pathsep + VERIF
        env["PYTHONHASHSEED"] = "0"
        cmd = [sys.executable, "-m", "crosshair", "check", "--report_all", "--analysis_kind", "PEP316",
               "--per_condition_timeout", str(per_condition_timeout)]
        if per_path_timeout:
            cmd += ["--per_path_timeout", str(per_path_timeout)]
        cmd.append(path)
        t = time.time()
        p = subprocess.run(cmd, capture_output=True, text=True, env=env, cwd=d, timeout=per_condition_timeout * 6 + 120)
        out = p.stdout + p.stderr
        res = {"wall_s": round(time.time() - t, 2), "raw": out[-1500:], "verdict": "inconclusive", "args": None}
        for line in out.splitlines():
            if "error:" in line and "when calling" in line:
                m = re.search(r"when calling %s\((.*?)\)(?: with crosshair| \(which|$)" % re.escape(func_name), line)
                res["verdict"] = "counterexample"
                res["call"] = line.split("error:", 1)[1].strip()[:500]
                if m:
                    res["args"] = parse_args(m.group(1))
                break
            if "error:" in line:
                res["verdict"] = "counterexample"
                res["call"] = line.split("error:", 1)[1].strip()[:500]
            if "Confirmed over all paths" in line:
                res["verdict"] = "confirmed"
            elif "Not confirmed" in line:
                res["verdict"] = "not_confirmed"
            elif "Unable to meet precondition" in line:
                res["verdict"] = "unable_to_meet_precondition"
        return res
    finally:
        shutil.rmtree(d, ignore_errors=True)


def parse_args(text):
    """'label = "a", chrid = "0"' or positional -> dict / list of python values"""
    try:
        tree = ast.parse("f(%s)" % text, mode="eval")
        call = tree.body
        kw = {k.arg: ast.literal_eval(k.value) for k in call.keywords}
        pos = [ast.literal_eval(a) for a in call.args]
        return {"kw": kw, "pos": pos}
    except Exception:  # noqa
        return None


def replay_contract(func_name, module_src, args):
    """concrete re-execution of the contract function: True if the postcondition fails"""
    ns = {"__name__": "contract_replay"}
    exec(compile(module_src, "<contract>", "exec"), ns)
    f = ns[func_name]
    try:
        r = f(*args.get("pos", []), **args.get("kw", {}))
    except Exception as e:  # noqa
        allowed = ns.get("ALLOWED_EXCEPTIONS", ())
        if isinstance(e, allowed):
            return False, "raised allowed %s" % type(e).__name__
        return True, "raised %s: %s" % (type(e).__name__, str(e)[:200])
    pre = ns.get("PRE")
    if pre is not None and not pre(*args.get("pos", []), **args.get("kw", {})):
        return False, "precondition not met"
    return (r is not True), "returned %r" % (r,)


def lane_run(func_name, module_src, timeout_s, reach_twin_src=None):
    """result dict in the shape the runner merges"""
    def run(ctx):
        r = run_contract(func_name, module_src, per_condition_timeout=int(timeout_s * ctx.get("budget_scale", 1)) or 5)
        st = {"paths": 1, "paths_reached_assertion": 1, "paths_infeasible": 0, "queries": 1, "solver_s": r["wall_s"],
              "obligations": 1, "discharged": 0, "inconclusive": [], "n_inconclusive": 0, "labels": {func_name: 1},
              "samples": [{"label": func_name, "witness": {"crosshair_verdict": r["verdict"]}}], "excluded": {}, "known_hits": {},
              "crosshair": {"verdict": r["verdict"], "wall_s": r["wall_s"]}}
        if r["verdict"] == "confirmed":
            st["discharged"] = 1
        elif r["verdict"] == "counterexample":
            if r.get("args") is None:
                st["inconclusive"] = ["crosshair counterexample could not be parsed: %s" % r.get("call")]
                st["n_inconclusive"] = 1
            else:
                st["cex"] = {"label": func_name, "model": {"__crosshair_args": r["args"]}, "detail": {"call": r.get("call")}}
        else:
            st["inconclusive"] = ["crosshair: %s within %ss (searched, not discharged)" % (r["verdict"], timeout_s)]
            st["n_inconclusive"] = 1
            if r["verdict"] == "unable_to_meet_precondition":
                st["paths_reached_assertion"] = 0
        return st
    return run
