"""Byte-level modelling for the serialization harnesses: int.to_bytes / int.from_bytes by their
contract (big-endian base 256, OverflowError iff out of range), a byte stream whose cells are concrete
ints or z3 Int terms in [0,255], and the few bit operations the encoders use (single-bit masks)."""
import builtins

import z3

from . import symx
from .symx import SymInt, SymBool, mk_int, mk_bool, lift_int


class SymBytes:
    def __init__(self, g, cells):
        self.g = g
        self.cells = list(cells)      # python ints or z3 Int terms

    def __len__(self):
        return len(self.cells)

    def __add__(self, o):
        if isinstance(o, SymBytes):
            return SymBytes(self.g, self.cells + o.cells)
        if isinstance(o, (bytes, bytearray)):
            return SymBytes(self.g, self.cells + list(o))
        return NotImplemented

    def __radd__(self, o):
        if isinstance(o, (bytes, bytearray)):
            return SymBytes(self.g, list(o) + self.cells)
        return NotImplemented

    def concrete(self):
        return all(isinstance(c, builtins.int) for c in self.cells)

    def decode(self, encoding="utf-8"):
        if not self.concrete():
            raise symx.Inconclusive("decode of symbolic bytes")
        return bytes(self.cells).decode(encoding=encoding)


def _to_bytes(self, length=1, byteorder="big", signed=False):
    g = self.g
    if signed or byteorder != "big":
        raise symx.Inconclusive("to_bytes variant not modelled")
    lim = 256 ** length
    if not g.branch(z3.And(self.e >= 0, self.e < lim)):
        raise OverflowError("int too big to convert" if g.branch(self.e >= lim) else "can't convert negative int to unsigned")
    # base-256 digits as fresh variables tied to the value by one linear equation (the representation
    # exists and is unique for 0 <= e < 256^length, which holds on this path) - no div/mod terms
    cells = []
    acc = z3.IntVal(0)
    for k in range(length):
        c = g.fresh_int("byte").e
        g.add(z3.And(c >= 0, c <= 255))
        cells.append(c)
        acc = acc * 256 + c
    g.add(acc == self.e)
    return SymBytes(g, cells)


SymInt.to_bytes = _to_bytes


def _pow2(n):
    return n > 0 and n & (n - 1) == 0


def _split(self, w):
    """(hi, lo) fresh terms with e == hi*w + lo, 0 <= lo < w (floor semantics, as Python's bit operations
    on arbitrary ints) - linear, no div/mod"""
    g = self.g
    hi = g.fresh_int("hi").e
    lo = g.fresh_int("lo").e
    g.add(z3.And(self.e == hi * w + lo, lo >= 0, lo < w))
    return hi, lo


def _bit(self, w):
    """0/1 term: the bit of weight w (a power of two)"""
    g = self.g
    hi, _ = _split(self, w)
    h2 = g.fresh_int("h2").e
    b = g.fresh_int("bit").e
    g.add(z3.And(hi == 2 * h2 + b, b >= 0, b <= 1))
    return b


def _and(self, o):
    if isinstance(o, builtins.int) and not isinstance(o, bool):
        if o == 0:
            return 0
        if _pow2(o):            # single bit
            return mk_int(self.g, _bit(self, o) * o)
        if _pow2(o + 1):        # low mask
            return mk_int(self.g, _split(self, o + 1)[1])
    raise symx.Inconclusive("bit-and with a non-mask operand is not modelled")


def _or(self, o):
    if isinstance(o, builtins.int) and not isinstance(o, bool):
        if o == 0:
            return self
        if _pow2(o):
            return mk_int(self.g, self.e + (1 - _bit(self, o)) * o)
    raise symx.Inconclusive("bit-or with a non-single-bit operand is not modelled")


SymInt.__and__ = _and
SymInt.__rand__ = _and
SymInt.__or__ = _or
SymInt.__ror__ = _or


def from_bytes(b, byteorder="big", signed=False):
    if isinstance(b, SymBytes):
        if signed or byteorder != "big":
            raise symx.Inconclusive("from_bytes variant not modelled")
        if b.concrete():
            return builtins.int.from_bytes(bytes(b.cells), byteorder)
        acc = z3.IntVal(0)
        for c in b.cells:
            acc = acc * 256 + (c if not isinstance(c, builtins.int) else z3.IntVal(c))
        return mk_int(b.g, acc)
    return builtins.int.from_bytes(b, byteorder, signed=signed)


class _IntMeta(type):
    def __instancecheck__(cls, inst):
        return isinstance(inst, (builtins.int, SymInt))


class ser_int(metaclass=_IntMeta):
    """`int` for the serialization modules: int(x), isinstance(x, int), int.from_bytes"""
    def __new__(cls, x=0, *a):
        from .shims import sym_int
        return sym_int(x, *a)

    from_bytes = staticmethod(from_bytes)


class SymStream:
    """in-memory binary file: write() appends cells, read(n) returns SymBytes; short reads behave like
    a real file (return what is left)"""

    def __init__(self, g):
        self.g = g
        self.cells = []
        self.pos = 0
        self.closed = False

    def write(self, b):
        if isinstance(b, SymBytes):
            self.cells.extend(b.cells)
        elif isinstance(b, (bytes, bytearray)):
            self.cells.extend(list(b))
        else:
            raise TypeError("a bytes-like object is required, not %s" % type(b).__name__)
        return len(b)

    def read(self, n=-1):
        if isinstance(n, SymInt):
            n = n.__index__()
        if n is None or n < 0:
            n = len(self.cells) - self.pos
        out = self.cells[self.pos:self.pos + n]
        self.pos += len(out)
        return SymBytes(self.g, out) if self.g is not None and not all(isinstance(c, builtins.int) for c in out) \
            else _ConcreteBytes(out, self.g)

    def rewind(self):
        self.pos = 0

    def remaining(self):
        return len(self.cells) - self.pos

    def close(self):
        self.closed = True

    def flush(self):
        pass


class _ConcreteBytes(bytes):
    """bytes read from the stream when every cell is concrete (also the whole replay run)"""
    def __new__(cls, cells, g=None):
        return bytes.__new__(cls, bytes(cells))
