"""Recompiles a repository function from its CURRENT source with container literals turned into calls
({} -> dict(), {a, b} -> set([a, b]), [..] untouched) so that the per-module `dict` / `set` shims apply to
them too.  Nothing else is changed; the function keeps its own module globals."""
import ast
import inspect
import textwrap


class _Lit(ast.NodeTransformer):
    def visit_Dict(self, node):
        self.generic_visit(node)
        if not node.keys:
            return ast.copy_location(ast.Call(func=ast.Name(id="dict", ctx=ast.Load()), args=[], keywords=[]), node)
        if any(k is None for k in node.keys):
            return node
        pairs = ast.List(elts=[ast.Tuple(elts=[k, v], ctx=ast.Load()) for k, v in zip(node.keys, node.values)], ctx=ast.Load())
        return ast.copy_location(ast.Call(func=ast.Name(id="dict", ctx=ast.Load()), args=[pairs], keywords=[]), node)

    def visit_Set(self, node):
        self.generic_visit(node)
        lst = ast.List(elts=node.elts, ctx=ast.Load())
        return ast.copy_location(ast.Call(func=ast.Name(id="set", ctx=ast.Load()), args=[lst], keywords=[]), node)


def literal_free(fn):
    raw = getattr(fn, "__func__", fn)
    src = textwrap.dedent(inspect.getsource(raw))
    tree = ast.parse(src)
    fdef = tree.body[0]
    fdef.decorator_list = []
    tree = ast.fix_missing_locations(_Lit().visit(tree))
    ns = {}
    code = compile(tree, inspect.getsourcefile(raw) or "<astshim>", "exec")
    exec(code, raw.__globals__, ns)
    new = ns[fdef.name]
    new.__qualname__ = raw.__qualname__
    return new


def patch_method(cls, name):
    """replace cls.<name> by its literal-free recompilation (checking process only)"""
    raw = cls.__dict__[name]
    kind = type(raw)
    new = literal_free(raw.__func__ if isinstance(raw, (staticmethod, classmethod)) else raw)
    if isinstance(raw, staticmethod):
        new = staticmethod(new)
    elif isinstance(raw, classmethod):
        new = classmethod(new)
    setattr(cls, name, new)
    return "%s.%s recompiled from current source with container literals as dict()/set() calls" % (cls.__name__, name)
