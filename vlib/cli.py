import argparse
import os
import sys
import warnings

warnings.simplefilter("ignore")
from vlib import runner  # noqa


def main():
    ap = argparse.ArgumentParser()
    ap.add_argument("property")
    ap.add_argument("--tier", default=os.environ.get("VERIF_TIER", "quick"), choices=["quick", "thorough"])
    ap.add_argument("--seed", type=int, default=int(os.environ.get("VERIF_SEED", "0") or 0))
    ap.add_argument("--replay")
    ap.add_argument("--jobs", type=int)
    ap.add_argument("--only", action="append")
    a = ap.parse_args()
    pid = a.property.upper()
    if a.replay:
        status, text = runner.replay_file(a.replay, [e["id"] for e in runner.load_findings(pid) if e.get("status") == "known"])
        print(text)
        if status == "reproduced":
            print("VIOLATION property=%s replay=%s" % (pid, a.replay))
            sys.exit(1)
        sys.exit(0 if status == "not_reproduced" else 3)
    sys.exit(runner.run_property(pid, a.tier, a.seed, a.jobs, a.only))


if __name__ == "__main__":
    main()
