"""Shims injected into the module namespaces of src.* inside the checking process only.

Module globals shadow builtins, so `float(x)`, `set()`, `min(a, b)` ... inside the repository's
functions resolve to these versions while the source text stays untouched.  Replays never run in a
shimmed process.  Every shim used by a check is listed in its evidence under `stubs`.
"""
import builtins
from collections import defaultdict as _defaultdict

from .symx import (SymInt, SymBool, SymReal, is_sym, lift_real, mk_real, mk_int, sym_min, sym_max,
                   engine_of, ITE)
import z3


def sym_float(x=0.0):
    if isinstance(x, SymInt):
        return SymReal(x.g, z3.ToReal(x.e), int_term=x.e)
    if isinstance(x, SymBool):
        return SymReal(x.g, z3.If(x.e, z3.RealVal(1), z3.RealVal(0)))
    if isinstance(x, SymReal):
        return x
    if isinstance(x, str) and CURRENT["g"] is not None:
        # text written earlier by "%.2f" % <symbolic> is read back as the same symbolic value
        try:
            return CURRENT["g"].unsentinel_real(x)
        except ValueError:
            pass
    return builtins.float(x)


CURRENT = {"g": None}   # engine of the running harness, for parsers of sentinel text (set by the harness)


class _IntMeta(type):
    def __instancecheck__(cls, inst):
        return isinstance(inst, (builtins.int, SymInt))


class sym_int(metaclass=_IntMeta):
    """int(x): identity on SymInt, floor-toward-zero on SymReal (as a term, no fork);
    isinstance(x, int) is true for SymInt"""
    def __new__(cls, x=0, *a):
        if isinstance(x, SymInt):
            return x
        if isinstance(x, SymBool):
            return x._as_int()
        if isinstance(x, SymReal):
            return mk_int(x.g, z3.If(x.e >= 0, z3.ToInt(x.e), -z3.ToInt(-x.e)))
        if isinstance(x, str) and not a and CURRENT["g"] is not None:
            return CURRENT["g"].unsentinel(builtins.int(x))
        return builtins.int(x, *a)

    from_bytes = builtins.int.from_bytes


def sym_round(x, n=None):
    if isinstance(x, SymInt):
        return x
    if isinstance(x, SymReal):
        if n is None:
            # round-half-even is not modelled: fork-free floor(x + 1/2); harnesses that depend on
            # ties state so
            return mk_int(x.g, z3.ToInt(x.e + z3.RealVal("1/2")))
        return x
    return builtins.round(x, n) if n is not None else builtins.round(x)


def sym_abs(x):
    return x.__abs__() if is_sym(x) else builtins.abs(x)


def sym_sum(it, start=0):
    acc = start
    for x in it:
        acc = acc + x
    return acc


def sym_range(*args):
    if any(isinstance(a, SymInt) for a in args):
        args = [a.__index__() if isinstance(a, SymInt) else a for a in args]
    return builtins.range(*args)


def sym_len(x):
    return builtins.len(x)


class SymSet:
    """association-list set: membership by == (forks on symbolic equality), insertion order"""

    def __init__(self, it=()):
        self._l = []
        for x in it:
            self.add(x)

    def add(self, x):
        for y in self._l:
            if _eq(y, x):
                return
        self._l.append(x)

    def update(self, *its):
        for it in its:
            for x in it:
                self.add(x)

    def discard(self, x):
        for i, y in enumerate(self._l):
            if _eq(y, x):
                del self._l[i]
                return

    def remove(self, x):
        for i, y in enumerate(self._l):
            if _eq(y, x):
                del self._l[i]
                return
        raise KeyError(x)

    def __contains__(self, x):
        for y in self._l:
            if _eq(y, x):
                return True
        return False

    def __iter__(self): return iter(list(self._l))
    def __len__(self): return len(self._l)
    def __bool__(self): return bool(self._l)
    def copy(self): return SymSet(self._l)
    def clear(self): self._l = []

    def pop(self):
        return self._l.pop()

    def union(self, *o):
        r = SymSet(self._l)
        r.update(*o)
        return r

    __or__ = union

    def __ior__(self, o):
        self.update(o)
        return self

    def intersection(self, *os_):
        r = SymSet()
        for x in self._l:
            if all(x in o for o in os_):
                r.add(x)
        return r

    __and__ = intersection

    def difference(self, *os_):
        r = SymSet()
        for x in self._l:
            if not any(x in o for o in os_):
                r.add(x)
        return r

    __sub__ = difference

    def issubset(self, o):
        return all(x in o for x in self._l)

    def issuperset(self, o):
        return all(x in self for x in o)

    __le__ = issubset
    __ge__ = issuperset

    def isdisjoint(self, o):
        return not any(x in o for x in self._l)

    def __eq__(self, o):
        if not isinstance(o, (SymSet, set, frozenset)):
            return False
        o = list(o)
        return all(x in o for x in self._l) and all(_in_list(x, self._l) for x in o)

    def __ne__(self, o):
        return not self.__eq__(o)

    __hash__ = None

    def __repr__(self): return "SymSet(%r)" % (self._l,)


class _SetMeta(type):
    def __instancecheck__(cls, inst):
        return isinstance(inst, (builtins.set, SymSet))


class sym_set(metaclass=_SetMeta):
    def __new__(cls, it=()):
        return SymSet(it)


def _eq(a, b):
    r = (a == b)
    return bool(r)


def _in_list(x, l):
    for y in l:
        if _eq(y, x):
            return True
    return False


class SymDict:
    """association-list dict with insertion order"""

    def __init__(self, init=None, **kw):
        self._k = []
        self._v = []
        if init is not None:
            if hasattr(init, "items"):
                init = init.items()
            for k, v in init:
                self[k] = v
        for k, v in kw.items():
            self[k] = v

    def _find(self, k):
        for i, y in enumerate(self._k):
            if _eq(y, k):
                return i
        return -1

    def __getitem__(self, k):
        i = self._find(k)
        if i < 0:
            return self.__missing__(k)
        return self._v[i]

    def __missing__(self, k):
        raise KeyError(k)

    def __setitem__(self, k, v):
        i = self._find(k)
        if i < 0:
            self._k.append(k)
            self._v.append(v)
        else:
            self._v[i] = v

    def __delitem__(self, k):
        i = self._find(k)
        if i < 0:
            raise KeyError(k)
        del self._k[i]
        del self._v[i]

    def __contains__(self, k): return self._find(k) >= 0
    def __iter__(self): return iter(list(self._k))
    def __len__(self): return len(self._k)
    def __bool__(self): return bool(self._k)
    def keys(self): return list(self._k)
    def values(self): return list(self._v)
    def items(self): return list(zip(self._k, self._v))

    def get(self, k, d=None):
        i = self._find(k)
        return d if i < 0 else self._v[i]

    def setdefault(self, k, d=None):
        i = self._find(k)
        if i < 0:
            self[k] = d
            return d
        return self._v[i]

    def pop(self, k, *d):
        i = self._find(k)
        if i < 0:
            if d:
                return d[0]
            raise KeyError(k)
        v = self._v[i]
        del self._k[i]
        del self._v[i]
        return v

    def update(self, o=(), **kw):
        if hasattr(o, "items"):
            o = o.items()
        for k, v in o:
            self[k] = v
        for k, v in kw.items():
            self[k] = v

    def copy(self):
        return SymDict(self.items())

    def clear(self):
        self._k, self._v = [], []

    def __eq__(self, o):
        if not hasattr(o, "items"):
            return False
        oi = list(o.items())
        if len(oi) != len(self._k):
            return False
        for k, v in oi:
            i = self._find(k)
            if i < 0 or not _eq(self._v[i], v):
                return False
        return True

    __hash__ = None

    def __repr__(self): return "SymDict(%r)" % (self.items(),)


class _DictMeta(type):
    def __instancecheck__(cls, inst):
        return isinstance(inst, (builtins.dict, SymDict))


class sym_dict(metaclass=_DictMeta):
    def __new__(cls, *a, **kw):
        return SymDict(*a, **kw)


class SymDefaultDict(SymDict):
    def __init__(self, factory=None, init=None):
        self.default_factory = factory
        SymDict.__init__(self, init)

    def __missing__(self, k):
        if self.default_factory is None:
            raise KeyError(k)
        v = self.default_factory()
        self[k] = v
        return v


class _DDMeta(type):
    def __instancecheck__(cls, inst):
        return isinstance(inst, (_defaultdict, SymDefaultDict))


class sym_defaultdict(metaclass=_DDMeta):
    def __new__(cls, factory=None, init=None):
        return SymDefaultDict(factory, init)


ALL = {
    "float": sym_float, "int": sym_int, "round": sym_round, "min": sym_min, "max": sym_max,
    "abs": sym_abs, "sum": sym_sum, "range": sym_range, "set": sym_set, "dict": sym_dict,
    "defaultdict": sym_defaultdict,
}


class installed:
    """context manager: inject the named shims into the given modules' globals"""

    def __init__(self, modules, names):
        self.modules = modules
        self.names = names
        self.saved = []

    def __enter__(self):
        for m in self.modules:
            for n in self.names:
                had = n in m.__dict__
                self.saved.append((m, n, had, m.__dict__.get(n)))
                m.__dict__[n] = ALL[n]
        return self

    def __exit__(self, *a):
        for m, n, had, old in reversed(self.saved):
            if had:
                m.__dict__[n] = old
            else:
                del m.__dict__[n]
        return False


def install(modules, names):
    for m in modules:
        for n in names:
            m.__dict__[n] = ALL[n]
    return ["%s.%s -> vlib.shims.%s" % (m.__name__, n, ALL[n].__name__) for m in modules for n in names]
