"""python -m vlib.replay_main <file>: exit 1 if the case violates the property on the current tree."""
import json
import os
import sys
import warnings

warnings.simplefilter("ignore")
from vlib import runner  # noqa


def main():
    with open(sys.argv[1]) as f:
        case = json.load(f)
    active = [a for a in os.environ.get("VERIF_ACTIVE_FINDINGS", "").split(",") if a]
    ok, text = runner.replay_in_process(case, active)
    print(text)
    sys.exit(1 if ok else 0)


if __name__ == "__main__":
    main()
