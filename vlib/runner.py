"""Runs the instances of one property on a process pool, replays counterexamples in a fresh
unshimmed subprocess, handles the known-findings file and writes the evidence file."""
import concurrent.futures as cf
import hashlib
import importlib
import inspect
import json
import multiprocessing as mp
import os
import subprocess
import sys
import time
import traceback

VERIF = os.path.dirname(os.path.dirname(os.path.abspath(__file__)))
REPO = os.environ.get("VERIF_REPO", "/repo")
EXIT_OK, EXIT_VIOLATION, EXIT_HARNESS = 0, 1, 3


class Instance:
    def __init__(self, name, fn=None, funcs=(), bounds="", budget_s=120, max_paths=None, run=None,
                 weight=1, kind="symx", meta=None):
        self.name = name
        self.fn = fn                # harness fn(g) for the symx lane
        self.funcs = list(funcs)    # "module:qualname" of the repository functions encoded
        self.bounds = bounds
        self.budget_s = budget_s
        self.max_paths = max_paths
        self.run = run              # custom lane: run(ctx) -> result dict
        self.weight = weight
        self.kind = kind
        self.meta = meta or {}


def load_prop(pid):
    if REPO not in sys.path:
        sys.path.insert(0, REPO)
    if VERIF not in sys.path:
        sys.path.insert(0, VERIF)
    return importlib.import_module("props.%s" % pid.lower())


def resolve(qual):
    modname, q = qual.split(":")
    obj = importlib.import_module(modname)
    for part in q.split("."):
        obj = getattr(obj, part)
    return obj


def source_digest(qual):
    try:
        obj = resolve(qual)
        obj = getattr(obj, "__func__", obj)
        obj = inspect.unwrap(obj) if callable(obj) else obj
        src = inspect.getsource(obj)
        return hashlib.sha256(src.encode()).hexdigest()[:16]
    except Exception as e:  # noqa
        return "unavailable(%s)" % type(e).__name__


# ------------------------------------------------------------------------------------------ worker
_worker_state = {}


def _worker_init(pid, tier, seed):
    import logging
    import warnings
    warnings.simplefilter("ignore")
    logging.disable(logging.WARNING)
    mod = load_prop(pid)
    if hasattr(mod, "setup_symbolic"):
        mod.setup_symbolic()
    _worker_state["mod"] = mod
    _worker_state["instances"] = {i.name: i for i in mod.instances(tier, seed)}


def _run_instance(args):
    name, seed, active, budget_scale, prefixes, handoff_s, deadline = args
    from vlib import symx
    inst = _worker_state["instances"][name]
    t0 = time.time()
    res = {"instance": name, "kind": inst.kind, "bounds": inst.bounds, "funcs": inst.funcs}
    try:
        if inst.run is not None:
            out = inst.run({"seed": seed, "active": set(active), "budget_s": inst.budget_s * budget_scale})
            res.update(out)
        else:
            g = symx.Engine(seed=seed, active_findings=active)
            if deadline is None:
                deadline = time.time() + inst.budget_s * budget_scale
            cex = g.explore(inst.fn, max_paths=inst.max_paths, prefixes=prefixes, handoff_s=handoff_s,
                            deadline=deadline)
            res.update(g.stats())
            res["pending"] = g.pending
            res["deadline"] = deadline
            if cex is not None:
                res["cex"] = {"label": cex.label, "model": cex.model, "detail": cex.detail}
    except BaseException as e:  # noqa - engine/harness failure is reported as a harness error
        res["error"] = "%s: %s\n%s" % (type(e).__name__, e, traceback.format_exc()[-3000:])
    res["wall_s"] = round(time.time() - t0, 3)
    return res


def _merge(merged, r, last):
    """accumulate the partial results of one instance (explored by several workers)"""
    name = r["instance"]
    m = merged.get(name)
    if m is None:
        merged[name] = r
        r["parts"] = 1
        return
    m["parts"] += 1
    for k in ("paths", "paths_reached_assertion", "paths_infeasible", "queries", "obligations", "discharged",
              "n_inconclusive", "solver_s", "wall_s"):
        m[k] = (m.get(k) or 0) + (r.get(k) or 0)
    for k in ("inconclusive", "samples"):
        m[k] = (m.get(k) or []) + (r.get(k) or [])
    for k in ("labels", "excluded"):
        d = m.setdefault(k, {})
        for kk, vv in (r.get(k) or {}).items():
            d[kk] = d.get(kk, 0) + vv
    for kk, vv in (r.get("known_hits") or {}).items():
        m.setdefault("known_hits", {}).setdefault(kk, vv)
    if r.get("cex") and not m.get("cex"):
        m["cex"] = r["cex"]
    if "error" in r and "error" not in m:
        m["error"] = r["error"]


# ------------------------------------------------------------------------------------------ replay
def replay_case(case, active=()):
    """run in a fresh subprocess (no shims, no proxies): does the case violate the property on the
    current tree?  returns (status, text) with status in reproduced / not_reproduced / error"""
    os.makedirs(os.path.join(VERIF, "replays", case["property"]), exist_ok=True)
    blob = json.dumps(case, sort_keys=True, indent=1, default=str)
    dig = hashlib.sha256(blob.encode()).hexdigest()[:12]
    path = os.path.join(VERIF, "replays", case["property"], "%s.json" % dig)
    with open(path, "w") as f:
        f.write(blob)
    status, text = replay_file(path, active)
    return status, text, path


def replay_file(path, active=()):
    env = dict(os.environ)
    env["PYTHONPATH"] = VERIF + os.pathsep + REPO
    env["VERIF_ACTIVE_FINDINGS"] = ",".join(sorted(active))
    p = subprocess.run([sys.executable, "-m", "vlib.replay_main", path], cwd=VERIF, env=env,
                       capture_output=True, text=True, timeout=900)
    out = (p.stdout + p.stderr).strip()
    if p.returncode == 1:
        return "reproduced", out
    if p.returncode == 0:
        return "not_reproduced", out
    return "error", out


def replay_in_process(case, active=()):
    """body of the replay subprocess"""
    from vlib import symx
    mod = load_prop(case["property"])
    import logging
    logging.disable(logging.WARNING)
    insts = {i.name: i for i in mod.instances(case.get("tier", "thorough"), case.get("seed", 0))}
    if case["instance"] not in insts:
        insts = {i.name: i for i in mod.instances("quick", case.get("seed", 0))}
    inst = insts[case["instance"]]
    if inst.run is not None:
        return mod.replay_custom(inst, case)
    g = symx.ConcreteEngine(case["model"], active)
    try:
        inst.fn(g)
    except symx.Counterexample as c:
        return True, "violated: %s %s" % (c.label, json.dumps(c.detail, default=str)[:600] if c.detail else "")
    except symx.PathAbort:
        return False, "model does not satisfy the harness assumptions concretely"
    return False, "oracle satisfied on the real code (%d checks evaluated)" % g.checked


# ------------------------------------------------------------------------------------------ findings
def load_findings(pid):
    path = os.path.join(VERIF, "known_findings.json")
    if not os.path.exists(path):
        return []
    with open(path) as f:
        data = json.load(f)
    return [e for e in data.get("findings", []) if e.get("property") == pid]


# ------------------------------------------------------------------------------------------ main
def run_property(pid, tier, seed, jobs=None, only=None):
    t0 = time.time()
    mod = load_prop(pid)
    insts = mod.instances(tier, seed)
    if only:
        insts = [i for i in insts if any(o in i.name for o in only)]
    jobs = jobs or min(16, os.cpu_count() or 4)
    budget_scale = float(os.environ.get("VERIF_BUDGET_SCALE", "1"))

    # known findings: re-confirm every listed witness on the current tree first
    findings = load_findings(pid)
    active, finding_report = [], []
    for e in findings:
        if e.get("status") != "known":
            continue
        wit = dict(e["witness"])
        wit.setdefault("property", pid)
        status, text, _ = replay_case(wit, active=())
        if status == "reproduced" and e.get("expect_text") and e["expect_text"] not in text:
            # the listed input still fails, but in a different way than the recorded finding: not the same finding any more
            status = "reproduced_differently"
        if status == "reproduced":
            active.append(e["id"])
            print("KNOWN-FINDING: property=%s %s [%s]" % (pid, e["what"], e["id"]), flush=True)
            finding_report.append({"id": e["id"], "witness_reproduced": True})
        else:
            # not reproducing any more (repaired or changed): suppress nothing
            finding_report.append({"id": e["id"], "witness_reproduced": False, "replay": text[-300:]})

    results = []
    order = sorted(insts, key=lambda i: -i.weight)
    ctx = mp.get_context("fork")
    merged = {}
    with cf.ProcessPoolExecutor(max_workers=jobs, mp_context=ctx, initializer=_worker_init,
                                initargs=(pid, tier, seed)) as ex:
        live = {}
        for i in order:
            f = ex.submit(_run_instance, (i.name, seed, tuple(active), budget_scale, None, 4.0, None))
            live[f] = (i.name, 4.0)
        while live:
            done, _ = cf.wait(list(live), return_when=cf.FIRST_COMPLETED)
            for f in done:
                name, hs = live.pop(f)
                r = f.result()
                pend = r.pop("pending", None) or []
                if pend and not r.get("cex") and "error" not in r:
                    # dynamic load balancing: unexplored subtrees go back to the pool
                    nchunks = min(len(pend), 2 * jobs)
                    chunks = [pend[k::nchunks] for k in range(nchunks)]
                    for ch in chunks:
                        f2 = ex.submit(_run_instance, (name, seed, tuple(active), budget_scale, ch,
                                                       min(hs * 2, 60.0), r.get("deadline")))
                        live[f2] = (name, min(hs * 2, 60.0))
                last = len([1 for v in live.values() if v[0] == name]) == 0
                _merge(merged, r, last)
                if last and os.environ.get("VERIF_VERBOSE"):
                    m = merged[name]
                    print("  finished %-40s paths=%-7s oblig=%-8s cpu=%-7s %s" % (name[:40], m.get("paths"), m.get("obligations"),
                          round(m.get("wall_s", 0), 1), ("CEX:" + m["cex"]["label"]) if m.get("cex") else ""), flush=True)
        results = list(merged.values())
    for r in results:
        if os.environ.get("VERIF_VERBOSE"):
            print("  done %-32s paths=%-6s oblig=%-6s cpu=%-7s %s%s" % (
                r["instance"], r.get("paths"), r.get("obligations"), round(r.get("wall_s", 0), 1),
                "CEX:" + r["cex"]["label"] if r.get("cex") else "",
                " ERROR" if "error" in r else ""), flush=True)
    results.sort(key=lambda r: r["instance"])

    violations, harness_errors, unreproduced = [], [], []
    for r in results:
        if "error" in r:
            harness_errors.append("%s: %s" % (r["instance"], r["error"]))
        if r.get("cex"):
            case = {"property": pid, "tier": tier, "seed": seed, "instance": r["instance"],
                    "label": r["cex"]["label"], "model": r["cex"]["model"], "detail": r["cex"].get("detail")}
            status, text, path = replay_case(case, active)
            r["cex"]["replay"] = {"status": status, "path": path, "text": text[-600:]}
            if status == "reproduced":
                violations.append((r, path, text))
            elif status == "not_reproduced":
                unreproduced.append("%s: %s :: %s" % (r["instance"], r["cex"]["label"], text[-300:]))
            else:
                harness_errors.append("%s: replay failed: %s" % (r["instance"], text[-1500:]))

    reach = sum(r.get("paths_reached_assertion", 0) for r in results)
    zero_reach = [r["instance"] for r in results if "error" not in r and not r.get("cex")
                  and r.get("paths_reached_assertion", 0) == 0 and r.get("obligations", 0) == 0]
    for z in zero_reach:
        harness_errors.append("%s: no path reached an assertion (vacuous harness)" % z)

    wall = time.time() - t0
    ev = build_evidence(mod, pid, tier, seed, insts, results, violations, unreproduced, harness_errors,
                        finding_report, active, wall)
    evdir = os.environ.get("VERIF_EVIDENCE_DIR") or os.path.join(VERIF, "evidence")
    os.makedirs(evdir, exist_ok=True)
    with open(os.path.join(evdir, "%s.json" % pid), "w") as f:
        json.dump(ev, f, indent=1, default=str)

    cov = ev["coverage"]
    print("%s %s: instances=%d paths=%d reached=%d obligations=%d discharged=%d inconclusive=%d queries=%d "
          "solver=%.1fs wall=%.1fs" % (pid, tier, len(results), cov["paths"], reach, cov["obligations"],
                                       cov["discharged"], cov["inconclusive_obligations"], cov["solver_queries"],
                                       cov["solver_s"], wall), flush=True)
    if cov["inconclusive_obligations"]:
        print("NOT DISCHARGED: %d obligation(s)/path sets inconclusive: %s" % (
            cov["inconclusive_obligations"], "; ".join(cov["inconclusive_detail"][:4])), flush=True)
    for u in unreproduced:
        print("UNREPRODUCED-MODEL (encoding or shim defect, not reported as violation): %s" % u, flush=True)
    for r, path, text in violations:
        print("VIOLATION property=%s replay=%s" % (pid, path), flush=True)
        print("  instance=%s label=%s model=%s\n  %s" % (r["instance"], r["cex"]["label"],
              json.dumps(r["cex"]["model"], default=str)[:800], text[-400:]), flush=True)
    if violations:
        return EXIT_VIOLATION
    if harness_errors or unreproduced:
        for h in harness_errors:
            print("HARNESS-ERROR: %s" % h, flush=True)
        return EXIT_HARNESS
    return EXIT_OK


def build_evidence(mod, pid, tier, seed, insts, results, violations, unreproduced, harness_errors,
                   finding_report, active, wall):
    funcs = sorted({f for i in insts for f in i.funcs})
    tot = lambda k: sum(r.get(k, 0) or 0 for r in results)  # noqa
    obligations = tot("obligations")
    discharged = tot("discharged")
    incon_detail = []
    n_incon = 0
    for r in results:
        if r.get("n_inconclusive"):
            n_incon += r["n_inconclusive"]
            incon_detail.append("%s: %s" % (r["instance"], "; ".join(r.get("inconclusive", [])[:2])))
    samples = []
    for r in results:
        for s in r.get("samples", [])[:1]:
            samples.append({"instance": r["instance"], "obligation": s.get("label"), "path_witness": s.get("witness")})
    samples = samples[:12]
    nontrivial = sum(1 for r in results if r.get("paths_reached_assertion", 0) > 0)
    labels = {}
    for r in results:
        for k, v in r.get("labels", {}).items():
            labels[k] = labels.get(k, 0) + v
    per_instance = [{k: r.get(k) for k in ("instance", "kind", "bounds", "paths", "paths_reached_assertion",
                                           "paths_infeasible", "obligations", "discharged", "queries",
                                           "solver_s", "wall_s", "n_inconclusive", "excluded")} for r in results]
    ev = {
        "property_id": pid,
        "tier": tier,
        "seed": int(seed),
        "level": "other",
        "coverage": {
            "explanation": getattr(mod, "EXPLANATION", "") + " Each obligation is a z3 query "
            "path-condition AND NOT property over symbolic inputs produced by executing the real "
            "functions from /repo on proxy values; 'discharged' counts unsat answers; every path inside "
            "the stated bounds is explored unless listed as inconclusive.",
            "obligations": obligations + n_incon,
            "discharged": discharged,
            "inconclusive_obligations": n_incon,
            "obligations_violated_by_known_findings": sum(len(r.get("known_hits") or {}) for r in results),
            "inconclusive_detail": incon_detail[:20],
            "paths": tot("paths"),
            "paths_reached_assertion": tot("paths_reached_assertion"),
            "paths_infeasible": tot("paths_infeasible"),
            "solver_queries": tot("queries"),
            "solver_s": round(sum(r.get("solver_s", 0) or 0 for r in results), 2),
            "evaluations": max(1, tot("paths")),
            "distinct_nontrivial": nontrivial,
            "rule": "one evaluation = one explored symbolic path (a whole class of inputs); an instance is "
                    "non-trivial if at least one of its paths reached an assertion with a satisfiable path "
                    "condition (reachability witness recorded)",
            "samples": samples if samples else [{"note": "no path witness recorded"}],
            "obligation_labels": labels,
            "functions_encoded": [{"function": f, "source_sha256_16": source_digest(f)} for f in funcs],
            "bounds": sorted({i.bounds for i in insts if i.bounds}),
            "stubs": list(getattr(mod, "STUBS", [])),
            "outside_claim": list(getattr(mod, "OUTSIDE", [])),
            "instances": per_instance,
            "known_findings": finding_report,
            "known_finding_classes_excluded": sorted(active),
            "harness_errors": harness_errors[:10],
            "unreproduced_models": unreproduced[:10],
            "checker_cmd": "./check %s --tier %s" % (pid, tier),
            "trusted_base": ["z3-solver 5.1.0", "vlib/symx.py proxy semantics", "CPython 3.12"],
            "exhaustive": False,
        },
        "assumptions": list(getattr(mod, "ASSUMPTIONS", [])),
        "wall_s": round(wall, 2),
        "violations": len(violations),
    }
    return ev
