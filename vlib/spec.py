"""Oracle helpers: specifications over sets of positions, written with operators that work both on
symx proxies (symbolic run) and on plain ints (concrete replay)."""
from .symx import AND, OR, NOT, ITE, IMPLIES, IFF, SUM, BOOL2INT, sym_min, sym_max  # noqa


def in_iv(x, iv):
    return AND(iv[0] <= x, x <= iv[1])


def in_list(x, lst):
    return OR([in_iv(x, iv) for iv in lst]) if lst else False


def ilen(a, b):
    """|[a0,a1] n [b0,b1]|"""
    return sym_max(0, sym_min(a[1], b[1]) - sym_max(a[0], b[0]) + 1)


def total_len(lst):
    return SUM([iv[1] - iv[0] + 1 for iv in lst])


def inter_len(l1, l2):
    return SUM([ilen(a, b) for a in l1 for b in l2])


def sorted_disjoint(lst, gap=1):
    """each interval non-empty, consecutive intervals separated (next.start >= prev.end + gap)"""
    cs = [iv[0] <= iv[1] for iv in lst]
    cs += [lst[i][1] + gap <= lst[i + 1][0] for i in range(len(lst) - 1)]
    return AND(cs) if cs else True


def interval_list(g, stem, n, lo=None, gap=1, minlen=1):
    """n sorted pairwise disjoint intervals with free coordinates:
    a_i <= b_i (length >= minlen), b_i + gap <= a_{i+1}"""
    out = []
    prev = None
    for i in range(n):
        a = g.int("%s%da" % (stem, i))
        b = g.int("%s%db" % (stem, i))
        g.add(a + (minlen - 1) <= b)
        if prev is not None:
            g.add(prev + gap <= a)
        elif lo is not None:
            g.add(a >= lo)
        prev = b
        out.append((a, b))
    return out


def lex_le(a, b):
    """tuple order (a0,a1) <= (b0,b1)"""
    return OR(a[0] < b[0], AND(a[0] == b[0], a[1] <= b[1]))


def lex_lt(a, b):
    return OR(a[0] < b[0], AND(a[0] == b[0], a[1] < b[1]))


def count_true(bs):
    return SUM([BOOL2INT(b) for b in bs])


FAKE_MARKERS = ("'Obj' object", "'Fake", "'NoOp' object", "'Stub", "'Rec' object", "'Al' object", "'EmptyDB' object", "FakeDB")


class HarnessGap(BaseException):
    """a stand-in object of the harness lacks something the code now uses (reported as a harness error, exit 3)"""


def call(g, fn, *args, allowed=(), label=None, exclude=None, **kw):
    """call repository code; an exception on a feasible path under the stated precondition is a
    violation unless its type is listed as allowed (then the path ends quietly)"""
    from .symx import PathAbort
    try:
        return fn(*args, **kw)
    except allowed:
        raise PathAbort()
    except Exception as e:  # noqa - BaseException is engine control flow
        if isinstance(e, (AttributeError, TypeError)) and any(t in str(e) for t in FAKE_MARKERS):
            # the code asked a stand-in object for something it does not model: a gap of the harness, not a property violation
            raise HarnessGap("%s: %s" % (type(e).__name__, e))
        name = getattr(fn, "__name__", None) or getattr(getattr(fn, "func", None), "__name__", "call")
        g.fail(label or ("%s raised %s" % (name, type(e).__name__)),
               detail={"exception": "%s: %s" % (type(e).__name__, str(e)[:200])}, exclude=exclude)
        raise PathAbort()
