#!/bin/bash
# runs every quick check once with the given seed; prints one line per property (exit code, wall time, summary)
SEED=${1:-0}
cd "$(dirname "$0")"
for id in C01 C02 C03 C04 C05 C06 C07 C08 C09 C10 C11 C12 C13 C14 C15 C16 C17 C18 C19 C20; do
  t0=$(date +%s)
  out=$(VERIF_EVIDENCE_DIR=${VERIF_EVIDENCE_DIR:-/tmp/allquick_ev_$SEED} ./check $id --tier ${TIER:-quick} --seed $SEED 2>&1)
  rc=$?
  t1=$(date +%s)
  echo "$id seed=$SEED rc=$rc $((t1-t0))s $(echo "$out" | grep "^$id ${TIER:-quick}:" | cut -c1-160)"
  if [ $rc -ne 0 ]; then echo "$out" | grep -v "^WARN\|^KNOWN" | tail -5 | cut -c1-400; fi
done
