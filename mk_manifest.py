#!/usr/bin/env python3
"""Regenerates MANIFEST.json from the table below (kept in one place so that the manifest stays valid)."""
import json

LEVEL = "other"
TECH = "solver-based bounded symbolic execution of the real functions (symx proxies on z3; one SMT query per obligation per path)"

CHECKS = {
    "C19": {
        "text": "Bounded symbolic verification: every interval/profile primitive is executed on symbolic coordinates "
                "(unbounded integers) for each list-length combination inside the bound; z3 decides each obligation "
                "(result == set-of-positions specification) on every path. Holds for ALL coordinate values with lists "
                "<=3 (quick) / <=4x4, <=6 single list (thorough); nothing is claimed for longer lists.",
        "note": "Trusted: z3, the proxy semantics of vlib/symx.py (validated by concrete replay of every counterexample), "
                "CPython. Assumes sorted disjoint input lists (callers' invariant), exact rational arithmetic for the "
                "returned ratios, features longer than 2*delta in the profile constructors. One known finding "
                "(profile sweep) is excluded by its exact input class.",
        "design": "3 C19",
    },
    "C16": {
        "text": "Bounded symbolic verification: for EVERY operator string over {M,=,X,I,D,N,S,H} with SAM-valid clipping up to "
                "length 5 (quick) / 7 (thorough) the real get_read_blocks is executed with all operation lengths and the "
                "reference start symbolic and z3 proves equality with an independent fold of the SAM specification "
                "(exons 1-based closed, read blocks, ordering); move_ref_coord_alogn_alignment is proved against a per-operation "
                "position formula in both directions; polyA/polyT exon trimming (add_polya_info, correct_read_info, "
                "shift_polya/polyt) is proved non-empty/ordered/position-preserving for <=3 (quick) / <=5 (thorough) exons "
                "with all coordinates and tail positions symbolic.",
        "note": "Trusted: z3, symx proxies, CPython. Stub: PolyAFinder.detect_polya returns arbitrary positions within its "
                "documented contract (internal tails on an exon, external tails in/beyond the terminal exon). Operator strings "
                "beyond the bound, the tail scanner's string windows and pysam's CIGAR decoding are outside the claim.",
        "design": "3 C16",
    },
    "C15": {
        "text": "Bounded symbolic verification of the intermediate-file format: the real write_*/read_* primitives and the "
                "serialize/deserialize methods of MatchEvent, IsoformMatch, ReadAssignment, BasicReadAssignment, GeneInfo (header) and "
                "the TmpFileAssignmentPrinter / Normal+Quick loaders run on a symbolic byte stream; every numeric field is symbolic over "
                "its whole documented domain, enum members and strings by complete case split over a catalogue. z3 proves field-wise "
                "round trip, exact byte consumption, byte alignment of the abridged reader with the full format and its agreement with "
                "the in-memory (--high_memory) record, for record shapes up to 2 exons x 2 matches x 2 events x 2 profile entries and "
                "streams of up to 4 records.",
        "note": "Trusted: z3, symx proxies, the contract model of int.to_bytes/from_bytes and of single-bit masks (vlib/symbytes.py). "
                "Strings are concrete catalogue members; longer lists than the shapes listed and the --read_assignments re-run of the "
                "whole pipeline are outside the claim.",
        "design": "3 C15",
    },
    "C08": {
        "text": "Bounded symbolic verification of MultimapResolver (take_best) on n<=3 (quick) / n<=4 (thorough) alignments of one read: "
                "assignment types are symbolic enum members, secondary flags, penalties, chromosome codes, coordinates and gene regions "
                "are symbolic, isoform sets chosen by the solver. z3 proves the priority order (primary unique consistent > consistent > "
                "primary inconsistent > inconsistent by minimum penalty > uninformative by overlap/region start), suspension of every "
                "loser at both levels, duplicate reduction, ambiguity flags on ties, and - by running the real resolver on ALL n! "
                "permutations inside one path - that the retained set and final types do not depend on record order; plus the verdict "
                "application of ReadAssignmentLoader.get_next for arbitrary verdict lists.",
        "note": "Trusted: z3, symx proxies, symbolic-enum proxy (predicates evaluated through the real enum methods). The count "
                "contribution bound (<=1) is violated by a recorded known finding (tied loci counted once each) and is only asserted "
                "outside its input class (>=2 retained records). The on-disk hand-off is covered by C15's framing check only.",
        "design": "3 C08",
    },
    "C02": {
        "text": "Bounded symbolic verification by ONE INDUCTIVE STEP from an arbitrary counter state: accumulated values are fresh "
                "symbolic reals, read counters fresh symbolic ints, the read's assignment type a symbolic enum member and its feature "
                "set chosen by the solver (<=3 features, <=3 matches); the real AssignedFeatureCounter.add_read_info / add_read_info_raw / "
                "dump / convert_counts_to_tpm, GraphBasedModelConstructor.forward_counts, merge_counts and DatasetProcessor.merge_assignments / "
                "merge_transcript_models are executed and z3 proves post = pre + documented weight for all 5 strategies x gene/transcript, "
                "total weight per read in [0,1], the confirmation rule, the stats lines, TPM = count*10^6/total (sum 10^6) and merged "
                "stats = sums with __not_aligned = unaligned reads. Because the pre-state is arbitrary the step covers any number of reads. "
                "Per-chromosome file naming is checked by CrossHair on symbolic label/chromosome strings (<=3/<=2 chars).",
        "note": "Trusted: z3, symx proxies, sentinel-token parsing of the printed tables, CrossHair for the string kernel (its verdict is "
                "'confirmed' or, if the budget runs out, 'searched, not discharged'). Exact rational arithmetic: 2-/6-decimal rounding "
                "of printed values, pandas combine_counts and file concatenation order are outside the claim.",
        "design": "3 C02",
    },
    "C09": {
        "text": "Bounded symbolic verification of grouped counting: one inductive step from an arbitrary grouped counter state "
                "(fresh symbolic real per feature x group, <=3 groups quick / 4 thorough, 2 features) with the group universe given to the "
                "counter in EVERY iteration order (order chosen by the solver - models set order / hash seed); the real add_read_info and "
                "dump_grouped run and both renderings are parsed back: z3 proves per-group sums = ungrouped value, only the read's own "
                "column changes, and matrix and linear renderings carry identical (feature, group, value) triples for every order. "
                "Group lookup: tag/table/file groupers with symbolic presence bits (symx); the read-id suffix grouper and the option "
                "parser on symbolic strings with CrossHair (read id <=4 chars).",
        "note": "Trusted: z3, symx proxies, sentinel parsing of printed tables, CrossHair for the string kernels (bug-hunting strength when it "
                "reports 'not confirmed' within its budget - recorded as not discharged). split_read_group_table (pysam) and group discovery "
                "across threads are outside the claim.",
        "design": "3 C09",
    },
    "C17": {
        "text": "Bounded symbolic verification of identifier allocation: the real FeatureIdStorage (constructor + get_id) is run with <=3 "
                "reference exons and <=4 queries whose coordinates and strands are symbolic; z3 proves that exon_id is a function of "
                "(chr,start,end,strand) from the first call on, injective, preserves reference ids and never re-issues one. The real "
                "ExcludingIdDistributor parses reference ids whose NUMBERS are symbolic (gene or transcript form) and z3 proves that allocated "
                "numbers increase strictly and avoid every reference number. GFFPrinter.dump with <=3 models of symbolic coordinates / strand / "
                "gene through two printers sharing one storage: ids parsed back from the GTF text are functional and unique per file.",
        "note": "Trusted: z3, symx proxies, association-list dict/set shims (FeatureIdStorage.__init__ is recompiled from the current source "
                "with its dict literal turned into dict()), sentinel parsing of GTF text. The id format strings are taken from "
                "TranscriptNaming; uniqueness over the concatenation of all chromosomes relies on the chromosome prefix (two-storage step).",
        "design": "3 C17",
    },
    "C18": {
        "text": "Bounded symbolic verification: border dinucleotides of <=3 introns chosen by the solver over the complete relevant "
                "alphabet (5x5 pairs per intron incl. canonical on +, on -, neither), symbolic locus offset, and the HISTORY of <=3 canonical "
                "queries (intron subset x strand, any order) chosen by the solver: z3/case split proves that check_sites_are_canonical "
                "with its per-locus memo equals the pure function of (sequence, introns, strand) for every history; get_intron_strand, "
                "StrandDetector.get_strand/get_clean_strand (every query order), AlignmentCollector.get_assignment_strand (symbolic type "
                "and polyA positions) and the strand/report block of the real construct_fl_isoforms (symbolic read count, all report "
                "levels, polyA/polyT ends) are proved against the majority/evidence specification.",
        "note": "Trusted: z3, symx proxies. The sequence alphabet is a finite case split (a complete one for the code, which only looks "
                "at the two border dinucleotides). construct_fl_isoforms runs on a directly constructed constructor state with a stub "
                "assigner. '.'-stranded canonical queries and more than 3 introns/queries are outside the claim.",
        "design": "3 C18",
    },
    "C13": {
        "text": "Bounded symbolic verification: a read of k exons with FREE symbolic coordinates (k=1, and k=2 with the first exon anchored "
                "within delta+1 of an annotated exon in quick; k=2 fully free in thorough) is profiled by the real CombinedProfileConstructor "
                "(count_exons wiring) against real GeneInfo objects of three catalogue loci (exon skipping/alt ends, contained and "
                "near-identical exons, antisense multi-gene overlap), counted by the real Exon/IntronCounter, and z3 proves for every "
                "annotated exon and intron: include <= 1 and only if the read contains the feature within delta, include if it is the sole / "
                "a closest candidate, never both include and exclude, exclude when the read spans it (well inside) and only for features "
                "covered by the read, grouped counts only under the read's own group; the feature table rows are compared with a "
                "recomputation from the annotation.",
        "note": "Trusted: z3, symx proxies. Annotations are catalogue loci (concrete), delta in {0,4,6,12} (quick: 6); read and annotation "
                "features longer than 2*delta. For features that are one of several within-delta candidates of a read feature only the "
                "unambiguous part is asserted (the code's documented closest-match rule). Which reads are processed is C05.",
        "design": "3 C13",
    },
    "C05": {
        "text": "Bounded symbolic verification of region handling: the real AlignmentCollector.process grouping loop, forward_alignments, "
                "split_coverage_regions, BAMAlignmentStorage (re-fetch through the real BAMOnlineMerger on a fake BAM obeying the pysam fetch "
                "contract) and InMemoryAlignmentStorage (index + retrieval) run on n<=3 (quick) / n<=4 (thorough) position-sorted alignments with "
                "symbolic start and length, with the class constants scaled (bin 4, max region 8, min reads 2) so that single-bin pile-ups, "
                "valleys in the last bin and multi-region splits are all reachable; z3 proves that every alignment is delivered to >=1 processed "
                "region in both memory modes, only to regions it overlaps, never twice to one region, that both modes deliver identical sets, "
                "and that the alignment statistics equal the per-category counts. split_coverage_regions is additionally proved to tile the "
                "region for every coverage profile of <=4 (quick) / <=6 (thorough) bins with symbolic coverage values.",
        "note": "Trusted: z3, symx proxies, the fake BAM's fetch contract. The constants are scaled (the code is parametric in them); real-size "
                "constants, pysam itself and the per-read MAPQ/flag filters are outside the claim. De-duplication of a read seen in two regions is "
                "covered by C08 (find_duplicates).",
        "design": "3 C05",
    },
    "C01": {
        "text": "Bounded symbolic verification of read-to-isoform assignment on a catalogue of 10 locus templates (single isoform, exon "
                "skipping, alternative site far / within delta, ISM-nested, mono-exonic inside an intron, antisense overlap, alternative ends, "
                "retained intron, micro-exon; both strands): for every isoform T and exon sub-chain, a read whose inner splice sites are "
                "T's shifted by independent symbolic jitters in [-delta, delta] and whose ends are symbolic positions inside the terminal "
                "exons is pushed through the real CombinedProfileConstructor + LongReadAssigner (JunctionComparator, PolyAVerifier) with the "
                "parameter objects of the real isoquant.set_matching_options; z3 proves on every path: consistent assignment type, every "
                "reported isoform intron-chain compatible, T (or a delta-indistinguishable twin) reported for full-length reads, unique to T "
                "when T is the only compatible isoform; and for reads with one edit of symbolic size >= 400 bp: never a consistent type. "
                "quick: preset default, full chain + one rotating sub-chain per isoform; thorough: 4 presets x all sub-chains + polyA tails.",
        "note": "Trusted: z3, symx proxies (floats as exact rationals). The claim is 'for every read of these shapes on these loci': annotations "
                "outside the catalogue, indels, reads ending outside the isoform and MAPQ filtering are outside it. End tolerance of the "
                "compatibility oracle: max(delta, minor_exon_extension).",
        "design": "3 C01",
    },
    "C14": {
        "text": "Bounded symbolic verification of alignment correction: isoform-anchored symbolic reads (following an isoform within delta; the same "
                "with one inner exon dropped or shortened) go through the real profile constructor, assigner and ExonCorrector with arbitrary "
                "symbolic alignment error counts, under the real correction presets (quick: none/default_ont/all; thorough: all six presets and, "
                "for two loci, the six flags as symbolic booleans); the result is rendered by the real BEDPrinter and parsed back. z3 proves BED12 "
                "validity (positive sizes, ascending non-overlapping blocks, first start 0, last end = chromEnd, blocks = exons), start/end unchanged "
                "unless a terminal correction is enabled, every corrected splice site is the read's own / an annotated site within delta / the "
                "assigned isoform's, and output = input when every correction is off. IlluminaExonCorrector.correct_exons on <=3 symbolic read "
                "exons x <=3 symbolic short-read introns: start/end kept, ordered exons, introns only from the two sources.",
        "note": "Trusted: z3, symx proxies, sentinel parsing of BED text. get_error_count is a stub returning arbitrary non-negative counts "
                "(its contract). Annotations are the C01 catalogue loci. One known finding (short-read intron covering the read end) is "
                "excluded by its exact input class. Chromosome-length bounds are outside the claim.",
        "design": "3 C14",
    },
    "C11": {
        "text": "Differential bounded symbolic verification: each real function runs on a symbolic input x and on its image T(x) in the same "
                "path and z3 decides f(T(x)) = T(f(x)). Reflection (x -> M-x, lists reversed, strands and polyA/polyT swapped, left/right event "
                "names swapped by a table derived from the enum) for the mirrored pairs count_polya_exons/count_polyt_exons, shift_polya/shift_polyt, "
                "interval_bin_search/_rev, sum_intervals_to/from_point, detect_reference_exons_beyond_polya/_before_polyt, verify_polya/verify_polyt "
                "(<=3-4 exons, all coordinates and tail positions symbolic) and for the whole real profile-construction + assignment pipeline on "
                "catalogue loci and their mirror images with isoform-anchored symbolic reads (following; 5'/3' elongated by a symbolic 30..320 bp; "
                "one splice site shifted by a symbolic 7..70 bp; with/without a polyA tail): assignment type and isoform set must be equal. "
                "Translation by a symbolic k for merge_ranges, prefix sums, binary search, junction conversion and the CIGAR walk.",
        "note": "Trusted: z3, symx proxies. Annotation loci are concrete (hashed), so locus-level translation by a symbolic k and the "
                "bin-multiple translation of split_coverage_regions are outside the claim, as are whole-run comparisons and discovered models. "
                "One known finding (absent tail position -1 used in a distance near the chromosome start) is excluded by its input class.",
        "design": "3 C11",
    },
    "C04": {
        "text": "Bounded symbolic verification of novel-model labelling: the real construct_fl_isoforms runs on a directly constructed state with "
                "one full-length path of <=3 introns whose annotation membership (every subset), owning reference gene, border dinucleotides, "
                "polyA/polyT terminal vertices and report level are chosen by the solver and whose read count is a symbolic integer; for every "
                "emitted model: .nic iff all introns annotated, never the chain of a reference transcript present in the graph, novel_gene_* gene "
                "without a reference gene, definite strand under only_canonical/only_stranded, minimal read support, >=1 supporting read listed, "
                "introns = path introns, and supporting-read records only for reported models. detect_similar_isoforms (real assigner underneath) "
                "on two novel models with one intron chain and symbolic ends: at least one is marked redundant. Intron evidence: the real "
                "IntronCollector.cluster_introns / simplify_correction_map on 2 (quick) / 3 (thorough) read introns at solver-chosen offsets "
                "around two junctions with SYMBOLIC read counts and annotation membership (kept/substituted/discarded partition, substitutes "
                "are similar kept read introns, counts conserved, no chain ends in a discarded intron), and the real IntronGraph on 2-3 reads "
                "with solver-chosen chains: every vertex that survives simplification is an intron of some read.",
        "note": "Trusted: z3, symx proxies, stub assigner/profile constructor inside construct_fl_isoforms. Intron clustering and graph "
                "simplification (intron_graph.py) are NOT encoded: 'every intron occurs in a read' is shown only relative to the path storage. "
                "One known finding (same chain, staggered ends: both kept) is excluded by its input class.",
        "design": "3 C04",
    },
    "C10": {
        "text": "Non-interference by one inductive step: each class-level mutable attribute found by an AST scan of the current src/ "
                "(detected_known_isoforms, duplicate_counter, id counters) is given arbitrary prior contents chosen by the solver; the real "
                "construct_models_in_parallel (I/O replaced by fakes) is shown to start every chromosome run from a clean 'already reported' set, "
                "the real construct_fl_isoforms reports a reproduced reference isoform from that state and only once per run, resolution verdicts "
                "are independent of the prior duplicate counter and identifiers stay distinct for every symbolic prior counter value.",
        "note": "Trusted: z3, symx proxies, fakes for Fasta/aggregator/loader. The combined_* tables (pandas), YAML/list parsing and process pools "
                "are outside the claim; attributes without a harness are listed in the evidence.",
        "design": "3 C10",
    },
    "C03": {
        "text": "Bounded symbolic verification of GTF output: GFFPrinter.dump runs on <=3 models x <=3 exons whose coordinates are symbolic and "
                "unconstrained (invalid chains must be dropped); the GTF text is parsed back and z3 proves: exactly the valid models printed, each "
                "transcript/gene record once, >=1 exon, exons sorted, non-overlapping, 1<=start<=end, transcript span = first/last exon, gene "
                "record contains its transcripts on the same chromosome, strand and gene verbatim. Reference transcripts of the catalogue loci go "
                "through the real GeneInfo.from_models / from_reference_transcript / dump next to a novel model with symbolic ends at any list "
                "position and come back verbatim. correct_novel_transcript_ends on <=3 supporting reads with symbolic ends never inverts an exon, "
                "never moves a splice site and only trims to a supporting read's end. create_extended_storage for a chromosome without genes "
                "returns exactly the novel models.",
        "note": "Trusted: z3, symx proxies, sentinel parsing of GTF text, minimal fake gene_info / gffutils. end <= chromosome length (needs the "
                "FASTA index), TranscriptToGeneJoiner, the gffutils-backed branch of create_extended_storage and file merge order are outside.",
        "design": "3 C03",
    },
    "C06": {
        "text": "Order- and state-independence as bounded symbolic verification: (hash seed) the group universe is handed to the counters in every "
                "iteration order chosen by the solver and the isoform set of a compact record in every insertion order - results must be equal; "
                "(thread schedule) the class-level state a worker inherits from earlier chromosomes/samples is arbitrary and the real "
                "per-chromosome entry point must start clean, identifiers stay distinct for symbolic prior counters; (memory mode) the real "
                "region grouping/splitting/retrieval code runs in default and --high_memory mode side by side on symbolic alignments and must "
                "deliver identical sets, and the compact record read from the intermediate file equals the one built in memory. An AST scan "
                "(re-run on the current source) lists the remaining set-iteration sites as unmodelled.",
        "note": "Trusted: z3, symx proxies and the order shims. Byte identity of whole runs under a real process pool and merge_files on a real "
                "file system are NOT claimed; the claim is that the listed functions are the only modelled carriers of order/state and are "
                "order/state independent.",
        "design": "3 C06",
    },
    "C12": {
        "text": "Claimed part of C12, bounded symbolic verification: (a) the real BAMOnlineMerger merges <=4 records with symbolic sorted "
                "(start,end) distributed over <=3 fake BAM iterators in EVERY partition chosen by the solver: the merged stream is sorted, a "
                "permutation of the union and carries the right file index; (b) the real find_converted_db / compare_stored_gtf / convert_db "
                "against a fake os/json layer with symbolic existence bits, current and recorded modification times and flags: a cached "
                "database is used iff recorded for this GTF path with equal GTF mtime, DB mtime and complete_genedb flag; a conversion records "
                "the current values; a touched GTF or a different flag is converted again.",
        "note": "NOT claimed: that gffutils builds identical databases from .gtf/.gtf.gz/.db with or without inference (C extension + sqlite I/O, "
                "not encodable), GeneInfo extraction from a gffutils database, gzipped reference handling.",
        "design": "3 C12",
    },
    "C20": {
        "engine": "z3-bmc",
        "technique": "z3 bounded model checking over all interleavings of operation traces recorded from the real functions; counterexample schedules replayed with real threads and files",
        "text": "Engine C: the shared-file operation trace of one run (exists / open-for-write=truncate / dump / open-for-read / load) is recorded by "
                "executing the real set_configs_directory and convert_db against a recording file layer; z3 searches all interleavings of "
                "2-3 (quick) / 2-4 (thorough) simultaneously starting runs, with the initialisation branch modelled, for a load that observes "
                "a truncated file; schedules found are replayed with real threads on a real scratch HOME by stepping the real functions in that "
                "order. When the query is unsat the model is validated by replaying the non-overlapping and the round-robin schedule with real threads and "
                "files; a run that starts next to a half-initialised cache directory must succeed; the look-up decision (shared with C12) never "
                "returns a conversion recorded for other modification times or flags. The in-place rewrite found this way on the pinned tree was repaired.",
        "note": "Trusted: z3, the recorded traces (one solo run per scenario), atomicity of single file operations. read_mapper's index/BED/"
                "alignment caches use the same pattern but are not recorded; more than 4 processes and OS-level scheduling inside a write are outside.",
        "design": "3 C20",
    },
    "C07": {
        "engine": "z3-trace",
        "technique": "z3 over the crash index of a file-system event trace recorded from the real function; crash points replayed by really killing and resuming the stage",
        "text": "Engine C for the read-collection stage of one chromosome: the open/write/flush/close/lock event trace of the real "
                "collect_reads_in_parallel (real TmpFileAssignmentPrinter, group dump, EnumStats; fake pysam/Fasta/AlignmentCollector feeding real "
                "ReadAssignments) is recorded on every run; with the crash index k a z3 integer and buffered data durable only from the next "
                "flush/close of their handle, z3 decides 'lock visible at k => every written file is complete at k'. A crash index found is "
                "replayed for real (subprocess killed with os._exit at that event, second process resumes); when the query is unsat the model is "
                "validated by really killing and resuming at 5 (quick) / all (thorough) crash points and comparing with the uninterrupted result.",
        "note": "Only this stage is claimed. Model construction, merging, clean-up, parameter reloading from .params and the final equality of all "
                "output files after a resume are NOT covered; power loss is not modelled (process death only).",
        "design": "3 C07",
    },
}

NOT_BUILT = "check not built yet (build in progress, see DESIGN.md section 5); no claim is made"
NA = {}


TECH_ADDED = {
    "C11": "; plus one z3 floating-point lane (Float64, round-to-nearest-even) over the real penalty table whose models are replayed on the real function",
    "C10": "; numbers that pass through pandas are rendered as sentinel numerals and parsed back into their symbolic terms",
}

# harnesses added after the first version of the table above (appended to the level text of the check)
ADDED = {
    "C01": " Added: negative families 'tail inside an exon >= 400 bp from every annotated 3' end' and 'a different terminal exon of similar length' (known "
           "finding, excluded by its class), minor overhangs next to a major contradiction; a tie locus (both equally close isoforms must be reported); "
           "two reads through one assigner (history independence); parametric loci (second isoform placed by the solver) in the thorough tier.",
    "C02": " Added: model-level bookkeeping - reads attached by the real save_assigned_read, a solver-chosen model discarded by delete_from_storage, then forward_counts.",
    "C03": " Added: TranscriptToGeneJoiner.join_transcripts on 1-2 novel models (symbolic coordinates / strands) next to a reference gene.",
    "C04": " Added: filter_transcripts bookkeeping (read lists, counters and model list agree after both de-duplication rounds and the real end "
           "correction; symbolic coverage and unique-read counts); two-exon models in detect_similar_isoforms (known finding).",
    "C05": " Added: one fake BAM record with symbolic flags / MAPQ through the real process_genic (record iff the documented filters pass); the "
           "processed-read list handed to collect_reads keeps multiplicities in both memory modes and on --resume; a placed unmapped record in the stream; "
           "a targeted quick shape reaching a tail sub-region that ends inside a bin.",
    "C09": " Added: the counters as the real ReadAssignmentAggregator builds them (5x5 quantification strategies); AlignmentTagReadGrouper over BAM tag "
           "types; the merger's file index used by --read_group file_name.",
    "C10": " Added: experiment descriptions (YAML structure / file list) through the real InputDataStorage - what an experiment gets does not depend on "
           "the others; combine_table through pandas with sentinel numerals parsed back into the symbolic counts.",
    "C11": " Added: thread_ends/thread_starts (mirror image and independence of the vertex-set iteration order); PolyAFinder.detect_polya on a read and its "
           "reverse complement (known finding: positions up to 2 bp off); region cutting under translation (scaled constants); loci where a read overruns "
           "another isoform's end; a z3 FLOATING-POINT lane: order-sensitive cost sequences of the real penalty table (binary64, round to nearest) "
           "found by z3 are replayed on the real select_best_among_inconsistent.",
    "C12": " Added: the database -> GTF direction (a recorded GTF is reused only for the database it was converted from).",
    "C13": " Added: optional polyA tail / polyT head; intron exclusion demanded from the code's absence-overlap threshold on; two reads through one "
           "profile constructor (history independence, no aliasing); one BAM record through the real process_genic carries both feature profiles.",
    "C14": " Added: start/end may move only when the flag of the event reported for the read is on; terminal exon aligned beyond its annotated place; "
           "two reads through one corrector; the presets described in docs/cmd.md.",
    "C15": " Added: ReadAssignmentLoader.get_next hands every assignment out with the gene-info region it was saved under.",
    "C17": " Added: contig names with underscores/dots in reference ids; construct_fl_isoforms on several full-length paths (transcript ids pairwise "
           "distinct); the real construct_models_in_parallel gives both GTF printers ONE exon-id table.",
    "C18": " Added: two strand detectors at the same coordinates answer from their own sequences; the read-level flag through the real BasicTSVAssignmentPrinter.",
    "C19": " Added: binary searches up to 5 (quick) / 9 (thorough) intervals; two reads through one profile constructor.",
}


def main():
    props = [json.loads(l) for l in open("/verif/properties.jsonl")]
    checks = []
    na = []
    for p in props:
        pid = p["id"]
        if pid in CHECKS:
            c = CHECKS[pid]
            checks.append({
                "property_id": pid,
                "quick_cmd": "./check %s --tier quick" % pid,
                "thorough_cmd": "./check %s --tier thorough" % pid,
                "evidence_file": "/verif/evidence/%s.json" % pid,
                "replay_cmd_template": "./check %s --replay {path}" % pid,
                "engine": c.get("engine", "symx"),
                "level_claimed": {"category": LEVEL, "text": c["text"] + ADDED.get(pid, ""), "design_ref": "DESIGN.md " + c["design"]},
                "level_note": c["note"],
                "technique": c.get("technique", TECH) + TECH_ADDED.get(pid, ""),
            })
        else:
            na.append({"property_id": pid, "reason": NA.get(pid, NOT_BUILT)})
    m = {
        "version": 1,
        "setup_cmd": "./setup.sh",
        "hooks": {"guard": "ABLAB_ISOQUANT_VERIF",
                  "enable": "no source hooks are needed: shims are injected into the module namespaces of src.* inside the "
                            "checking process; checks import /repo's current working tree afresh on every run",
                  "baseline_off_cmd": "/verif/run_baseline.sh",
                  "source_commits": [],
                  "add_only": True},
        "engines": [
            {"name": "symx", "path": "vlib/symx.py", "serves_properties": sorted(k for k, v in CHECKS.items() if v.get("engine", "symx") == "symx"),
             "kind_free_text": "proxy-based symbolic execution of the unmodified /repo functions on z3 (DFS over branch "
                               "decisions with re-execution; counterexamples replayed concretely in a fresh process)"},
        ],
        "checks": checks,
        "not_applicable": na,
        "notes": "Exit codes of ./check: 0 held on everything explored (KNOWN-FINDING lines for listed findings), 1 VIOLATION, "
                 "3 harness error. known_findings.json is the committed known-findings file.",
    }
    with open("/verif/MANIFEST.json", "w") as f:
        json.dump(m, f, indent=1)


if __name__ == "__main__":
    main()
