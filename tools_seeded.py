#!/usr/bin/env python3
"""Seeded-change bookkeeping.

  tools_seeded.py import <src_dir> <PROP> <name>   verify a candidate (patch.diff, demo.py, meta.json) in a scratch
                                                   worktree (tests unchanged, demo fails with / passes without the
                                                   patch) and store it as /verif/seeded/<PROP>-<name>/
  tools_seeded.py run [<id> ...] [--tier quick]    apply each stored patch to /repo, run ./check <PROP>, undo, and
                                                   record whether the check reported a VIOLATION
"""
import json
import os
import shutil
import subprocess
import sys
import time

VERIF = os.path.dirname(os.path.abspath(__file__))
SEEDED = os.path.join(VERIF, "seeded")
TEST_CMD = "PATH=/venv/bin:$PATH /venv/bin/python -m pytest -q -p no:cacheprovider --timeout=900 tests 2>&1 | tail -1"


def sh(cmd, cwd=None, timeout=3600):
    p = subprocess.run(cmd, shell=True, cwd=cwd, capture_output=True, text=True, timeout=timeout)
    return p.returncode, (p.stdout + p.stderr)


def do_import(src, prop, name):
    sid = "%s-%s" % (prop, name)
    wt = "/tmp/seedwt_%s" % sid
    sh("git -C /repo worktree remove --force %s" % wt)
    rc, out = sh("git -C /repo worktree add -q --detach %s HEAD" % wt)
    if rc:
        print(out)
        return False
    try:
        patch = os.path.join(src, "patch.diff")
        demo = os.path.join(src, "demo.py")
        rc0, out0 = sh("/venv/bin/python %s" % demo, cwd=wt, timeout=900)
        rc, out = sh("git apply %s" % patch, cwd=wt)
        if rc:
            print("patch does not apply on the current HEAD:", out[-400:])
            return False
        _, tests = sh(TEST_CMD, cwd=wt)
        rc1, out1 = sh("/venv/bin/python %s" % demo, cwd=wt, timeout=900)
        ok = rc0 == 0 and rc1 != 0 and "393 passed" in tests and "2 failed" in tests
        print("%s: demo clean rc=%d, demo patched rc=%d, tests: %s -> %s" % (sid, rc0, rc1, tests.strip()[-60:], "KEEP" if ok else "REJECT"))
        if not ok:
            print(out0[-300:], out1[-300:])
            return False
        dst = os.path.join(SEEDED, sid)
        os.makedirs(dst, exist_ok=True)
        shutil.copy(patch, os.path.join(dst, "patch.diff"))
        shutil.copy(demo, os.path.join(dst, "demo.py"))
        meta = json.load(open(os.path.join(src, "meta.json")))
        meta.update({"id": sid, "property": prop,
                     "confirmed": {"head": sh("git -C /repo rev-parse --short HEAD")[1].strip(),
                                   "tests_with_patch": tests.strip()[-60:], "demo_rc_clean": rc0, "demo_rc_patched": rc1,
                                   "demo_output_patched": out1.strip()[-300:],
                                   "ran": ["git apply patch.diff", TEST_CMD, "/venv/bin/python demo.py (patched, clean)"]}})
        json.dump(meta, open(os.path.join(dst, "meta.json"), "w"), indent=1)
        return True
    finally:
        sh("git -C /repo worktree remove --force %s" % wt)


def run_one(sid, tier):
    """apply the stored patch in a scratch worktree of /repo's HEAD and run the property's check against it
    (VERIF_REPO points the check at that tree; evidence goes to a scratch dir so that committed evidence is not touched)"""
    d = os.path.join(SEEDED, sid)
    meta = json.load(open(os.path.join(d, "meta.json")))
    prop = meta["property"]
    wt = "/tmp/seedrun_%s" % sid
    sh("git -C /repo worktree remove --force %s" % wt)
    rc, out = sh("git -C /repo worktree add -q --detach %s HEAD" % wt)
    try:
        rc, out = sh("git apply %s/patch.diff" % d, cwd=wt)
        if rc:
            return sid, {"detected": None, "note": "patch does not apply to current /repo HEAD: " + out[-200:]}
        t = time.time()
        env = "VERIF_REPO=%s VERIF_EVIDENCE_DIR=/tmp/seedrun_ev_%s" % (wt, sid)
        rc, out = sh("%s ./check %s --tier %s --jobs %d" % (env, prop, tier, JOBS), cwd=VERIF, timeout=7200)
        viol = [l for l in out.splitlines() if l.startswith("VIOLATION")]
        first = [l for l in out.splitlines() if l.strip().startswith("instance=")][:1]
        res = {"property": prop, "tier": tier, "exit": rc, "detected": bool(rc == 1 and viol), "wall_s": round(time.time() - t, 1),
               "first": (first[0].strip()[:300] if first else "")}
        if rc not in (0, 1):
            res["tail"] = out[-600:]
        return sid, res
    finally:
        sh("git -C /repo worktree remove --force %s" % wt)
        sh("rm -rf /tmp/seedrun_ev_%s" % sid)


JOBS = 8


def do_run(ids, tier):
    import concurrent.futures as cf
    res_path = os.path.join(SEEDED, "RESULTS.json")
    results = json.load(open(res_path)) if os.path.exists(res_path) else {}
    with cf.ThreadPoolExecutor(max_workers=2) as ex:
        for sid, res in ex.map(lambda s_: run_one(s_, tier), ids):
            results[sid] = res
            print("%-14s exit=%s detected=%s %5.0fs %s" % (sid, res.get("exit"), res.get("detected"), res.get("wall_s", 0),
                                                         (res.get("first") or res.get("note") or res.get("tail", ""))[:170]), flush=True)
    # merge into whatever another invocation may have written meanwhile
    mine = {sid: results[sid] for sid in ids if sid in results}
    results = json.load(open(res_path)) if os.path.exists(res_path) else {}
    results.update(mine)
    json.dump(results, open(res_path, "w"), indent=1, sort_keys=True)


if __name__ == "__main__":
    if sys.argv[1] == "import":
        sys.exit(0 if do_import(sys.argv[2], sys.argv[3], sys.argv[4]) else 1)
    elif sys.argv[1] == "run":
        args = sys.argv[2:]
        tier = "quick"
        if "--tier" in args:
            i = args.index("--tier")
            tier = args[i + 1]
            del args[i:i + 2]
        ids = args or sorted(x for x in os.listdir(SEEDED) if os.path.isdir(os.path.join(SEEDED, x)) and not x.startswith("_"))
        do_run(ids, tier)
